#!/bin/bash
# NOTE: seedcheck/seedbatch/seedcross work on a copy of the COMMITTED tree of /repo (git archive HEAD), so they can run beside tools/seeded_all.sh, which patches the working tree of /repo in place.
# tools/seedcheck.sh <ID> <seed-dir> [demo go-test args...]
# Confirms a seeded change independently (suite passes with it, demo fails with it and passes without it) in a scratch copy,
# then applies it to /repo, runs ./check <ID> (quick) and undoes it. Prints a summary; copies the artefacts to seeded/<name>/.
set -u
ID=$1; SD=$2; shift 2
# by default only the demonstration's own tests are run (the repository's TestRequest* tests share
# /tmp/rstest.sock and collide when several seeds are evaluated side by side)
DEMOTESTS=$(grep -ho "^func Test[A-Za-z0-9_]*" "$SD"/*_test.go 2>/dev/null | sed 's/^func //' | sort -u | paste -sd'|')
DEMOARGS="${*:--run ^($DEMOTESTS)\$ }"
NAME=$(basename "$(dirname "$SD")")
cd "$(dirname "$0")/.."
export GOFLAGS=-mod=mod GOPROXY=off
D=$(mktemp -d /tmp/vfseed-XXXXXX)/sftp; mkdir -p "$D"; trap 'rm -rf "$(dirname "$D")"' EXIT
git -C /repo archive HEAD | tar -x -C "$D"  # the committed tree, not the working tree (tools/seeded_all.sh may be patching that one)
( cd "$D" && git init -q . 2>/dev/null; true )
demo=$(ls "$SD"/*_test.go 2>/dev/null | head -1)
run_demo() { ( cd "$D" && cp "$demo" zz_demo_test.go && go test -vet=off -count=1 -timeout 300s $DEMOARGS . >"$D/../demo.$1.log" 2>&1; echo $?; rm -f zz_demo_test.go ); }
echo "== demo on the unchanged tree (must pass)"; r0=$(run_demo clean); echo "exit $r0"
( cd "$D" && patch -p1 -s < "$SD/patch.diff" ) || { echo "PATCH DOES NOT APPLY"; exit 3; }
( cd "$D" && go build ./... ) || { echo "DOES NOT BUILD"; exit 3; }
echo "== existing suite with the change (must pass)"; ( cd "$D" && go test -vet=off -count=1 -timeout 300s ./... 2>&1 | grep -v "no test files" | tail -4 ); 
echo "== demo with the change (must fail)"; r1=$(run_demo seeded); echo "exit $r1"; tail -5 "$D/../demo.seeded.log" | cut -c1-300
echo "== ./check $ID against the scratch copy of /repo with the change applied"
# (the scratch copy, not /repo itself, so that several seeds can be evaluated side by side and
#  a sweep running against /repo is not disturbed; tools/seeded_all.sh applies to /repo proper)
OUT=$(VERIF_REPO="$D" ./check "$ID" --tier ${SEED_TIER:-quick} 2>&1); RC=$?
git checkout -- evidence/$ID.json 2>/dev/null
echo "$OUT" | grep -a -E "VIOLATION|INCONCLUSIVE|OK property|observed" | head -6; echo "$OUT" | grep -a "key=" | head -4 | cut -c1-400
echo "RESULT id=$ID demo_clean_exit=$r0 demo_seeded_exit=$r1 check_rc=$RC"
