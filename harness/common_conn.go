//go:build verif

package sftp

// In-memory duplex byte stream with socket semantics, taps, cutter and an
// incremental frame parser.

import (
	"encoding/binary"
	"errors"
	"fmt"
	"io"
	"net"
	"os"
	"sync"
	"syscall"
)

type vfDir int

const (
	vfC2S vfDir = iota // client -> server
	vfS2C              // server -> client
)

func (d vfDir) String() string {
	if d == vfC2S {
		return "c2s"
	}
	return "s2c"
}

var errVfCut = errors.New("vf: injected transport failure")
var errVfClosed = errors.New("vf: use of closed connection")

// vfFaultErr returns the i-th member of a fixed pool of error values a real transport, file or handler object
// reports when it fails: the harness's own sentinel, and values that carry a meaning elsewhere (interrupted /
// temporary / timeout errnos, bare and wrapped; end-of-file values; stale handle; closed pipe). A failure is a
// failure whatever its value: injected faults draw from this pool instead of always using the same sentinel.
func vfFaultErr(i int) error {
	pool := vfFaultPool()
	if i < 0 {
		i = -i
	}
	return pool[i%len(pool)]
}

func vfFaultPool() []error {
	return []error{
		errVfCut,
		syscall.EINTR,
		&os.PathError{Op: "write", Path: "conn", Err: syscall.EINTR},
		syscall.ETIMEDOUT,
		&net.OpError{Op: "read", Net: "vf", Err: os.ErrDeadlineExceeded},
		fmt.Errorf("session closed: %w", io.EOF),
		io.ErrUnexpectedEOF,
		syscall.EAGAIN,
		&os.PathError{Op: "read", Path: "obj", Err: syscall.ESTALE},
		io.ErrClosedPipe,
		syscall.EPIPE,
		&os.SyscallError{Syscall: "write", Err: syscall.ECONNRESET},
		fmt.Errorf("backend: %w", syscall.ENOSPC),
		syscall.EIO,
		&net.OpError{Op: "read", Net: "vf", Err: net.ErrClosed},
	}
}

// vfHalf is one direction of the stream.
type vfHalf struct {
	mu   sync.Mutex
	cond *sync.Cond
	buf  []byte
	cap  int // 0 = unbounded

	wclosed bool // writer closed: reader sees EOF after drain
	rclosed bool // reader closed: writes fail, pending read fails
	werr    error

	delivered int64 // bytes handed to the reader so far
	written   int64 // bytes accepted from the writer so far
	writes    int   // Write calls so far

	// cutter
	cutAt      int64 // -1 = none; after this many delivered bytes the reader gets cutErr (nil = EOF)
	cutErr     error
	cutHit     bool
	lateFailK  int
	lateErr    error
	lateWait   func()
	failWriteK int // 0 = none; the k-th (1-based) Write call fails
	failWErr   error
	transK     int // 0 = none; the k-th Write call is reported as failed once (transient), later calls are unaffected
	transErr   error
	transFull  bool // the bytes of that call are delivered all the same
	onCut      func()

	tap     func(p []byte)
	waiting bool // reader parked on an empty buffer
}

func newVfHalf(capacity int) *vfHalf {
	h := &vfHalf{cap: capacity, cutAt: -1}
	h.cond = sync.NewCond(&h.mu)
	return h
}

func (h *vfHalf) write(p []byte) (nn int, rerr error) {
	h.mu.Lock()
	defer h.mu.Unlock()
	h.writes++
	late := false
	defer func() {
		if late && rerr == nil {
			rerr = h.lateErr
		}
	}()
	if h.failWriteK > 0 && h.writes == h.failWriteK {
		err := h.failWErr
		if err == nil {
			err = errVfCut
		}
		h.werr = err
		if h.onCut != nil {
			f := h.onCut
			h.onCut = nil
			h.mu.Unlock()
			f()
			h.mu.Lock()
		}
		return 0, err
	}
	if h.werr != nil {
		return 0, h.werr
	}
	if h.wclosed {
		return 0, errVfClosed
	}
	if h.transK > 0 && h.writes == h.transK {
		if !h.transFull {
			return 0, h.transErr
		}
		late = true
		h.lateErr = h.transErr
	}
	if h.lateFailK > 0 && h.writes == h.lateFailK {
		// this write goes out completely, and is reported as failed afterwards (a transport that learns of the
		// failure only after the peer has acted on the bytes)
		defer func() {
			wait, err := h.lateWait, h.lateErr
			h.werr = err
			h.mu.Unlock()
			if wait != nil {
				wait()
			}
			h.mu.Lock()
		}()
		late = true
	}
	if h.tap != nil && len(p) > 0 {
		h.tap(p)
	}
	n := 0
	for n < len(p) {
		if h.rclosed {
			return n, io.ErrClosedPipe
		}
		if h.wclosed {
			return n, errVfClosed
		}
		room := len(p) - n
		if h.cap > 0 {
			room = h.cap - len(h.buf)
			if room <= 0 {
				h.cond.Wait()
				continue
			}
			if room > len(p)-n {
				room = len(p) - n
			}
		}
		h.buf = append(h.buf, p[n:n+room]...)
		n += room
		h.written += int64(room)
		h.cond.Broadcast()
	}
	return n, nil
}

func (h *vfHalf) read(p []byte) (int, error) {
	h.mu.Lock()
	defer h.mu.Unlock()
	for {
		if h.rclosed {
			return 0, errVfClosed
		}
		if h.cutAt >= 0 && h.delivered >= h.cutAt {
			if !h.cutHit {
				h.cutHit = true
				if h.onCut != nil {
					f := h.onCut
					h.onCut = nil
					h.mu.Unlock()
					f()
					h.mu.Lock()
				}
			}
			if h.cutErr != nil {
				return 0, h.cutErr
			}
			return 0, io.EOF
		}
		if len(h.buf) > 0 {
			n := len(p)
			if n > len(h.buf) {
				n = len(h.buf)
			}
			if h.cutAt >= 0 && h.delivered+int64(n) > h.cutAt {
				n = int(h.cutAt - h.delivered)
			}
			copy(p, h.buf[:n])
			h.buf = h.buf[n:]
			if len(h.buf) == 0 {
				h.buf = nil
			}
			h.delivered += int64(n)
			h.cond.Broadcast()
			if n == 0 && len(p) > 0 {
				continue
			}
			return n, nil
		}
		if h.wclosed {
			return 0, io.EOF
		}
		h.waiting = true
		h.cond.Wait()
		h.waiting = false
	}
}

func (h *vfHalf) closeWrite() {
	h.mu.Lock()
	h.wclosed = true
	h.cond.Broadcast()
	h.mu.Unlock()
}

func (h *vfHalf) closeRead() {
	h.mu.Lock()
	h.rclosed = true
	h.buf = nil
	h.cond.Broadcast()
	h.mu.Unlock()
}

// vfEnd is one end of the duplex stream; it is an io.ReadWriteCloser.
type vfEnd struct {
	in, out *vfHalf
	// keepReadOnClose: Close only closes the write side (separate reader/writer,
	// as with the io.Pipe pairs of the repository's own tests).
	keepReadOnClose bool
	// NoClose: Close is a no-op (writes keep succeeding after the owner closed the transport).
	NoClose   bool
	closeOnce sync.Once
	closed    chan struct{}
}

func (e *vfEnd) Read(p []byte) (int, error)  { return e.in.read(p) }
func (e *vfEnd) Write(p []byte) (int, error) { return e.out.write(p) }

// ForceClose closes the end even if NoClose is set.
func (e *vfEnd) ForceClose() {
	e.NoClose = false
	e.Close()
}

func (e *vfEnd) Close() error {
	if e.NoClose {
		// a transport whose Close does not stop its write half (allowed for an io.WriteCloser)
		return nil
	}
	e.closeOnce.Do(func() {
		e.out.closeWrite()
		if !e.keepReadOnClose {
			e.in.closeRead()
		}
		close(e.closed)
	})
	return nil
}
func (e *vfEnd) CloseWrite() { e.out.closeWrite() }

// ReaderIdle reports whether this end's reader is parked on an empty buffer.
func (e *vfEnd) ReaderIdle() bool {
	e.in.mu.Lock()
	defer e.in.mu.Unlock()
	return e.in.waiting && len(e.in.buf) == 0
}

type vfPipeOpts struct {
	Buf            int  // per-direction capacity, 0 = unbounded
	SrvKeepRead    bool // server end's Close leaves its read side open
	ClientKeepRead bool
}

// vfPipe returns the client end and the server end of a fresh connection.
func vfPipe(o vfPipeOpts) (client, server *vfEnd) {
	c2s, s2c := newVfHalf(o.Buf), newVfHalf(o.Buf)
	client = &vfEnd{in: s2c, out: c2s, closed: make(chan struct{}), keepReadOnClose: o.ClientKeepRead}
	server = &vfEnd{in: c2s, out: s2c, closed: make(chan struct{}), keepReadOnClose: o.SrvKeepRead}
	return
}

// vfConnCtl controls both directions of a connection (taps, cuts).
type vfConnCtl struct{ c2s, s2c *vfHalf }

func vfCtl(client *vfEnd) vfConnCtl { return vfConnCtl{c2s: client.out, s2c: client.in} }

func (c vfConnCtl) half(d vfDir) *vfHalf {
	if d == vfC2S {
		return c.c2s
	}
	return c.s2c
}

// Tap installs fn, called (under the direction's lock, in write order) with every
// chunk written in that direction.
func (c vfConnCtl) Tap(d vfDir, fn func(p []byte)) {
	h := c.half(d)
	h.mu.Lock()
	h.tap = fn
	h.mu.Unlock()
}

// CutAfter makes the reader of direction d see EOF (err == nil) or err after n
// delivered bytes. onCut (optional) runs once when the cut is first observed.
func (c vfConnCtl) CutAfter(d vfDir, n int64, err error, onCut func()) {
	h := c.half(d)
	h.mu.Lock()
	h.cutAt, h.cutErr, h.onCut = n, err, onCut
	h.cond.Broadcast()
	h.mu.Unlock()
}

// CutNow ends direction d for its reader at exactly the number of bytes delivered so far (decided under the
// direction's lock, so that nothing is delivered between the reading of the count and the cut) and returns that count.
func (c vfConnCtl) CutNow(d vfDir, err error) int64 {
	h := c.half(d)
	h.mu.Lock()
	defer h.mu.Unlock()
	h.cutAt, h.cutErr, h.onCut = h.delivered, err, nil
	h.cond.Broadcast()
	return h.delivered
}

// FailWrite makes the k-th (1-based, counted from now) Write call in direction d fail.
func (c vfConnCtl) FailWrite(d vfDir, k int, err error, onCut func()) {
	h := c.half(d)
	h.mu.Lock()
	h.failWriteK, h.failWErr, h.onCut = h.writes+k, err, onCut
	h.mu.Unlock()
}

// TransientFailWrite: the k-th write call from now on is reported as failed with err, once; the transport keeps
// working afterwards. full: the bytes of that call reach the peer all the same (the failure report is about a
// write that did take effect), otherwise none of them does.
func (c vfConnCtl) TransientFailWrite(d vfDir, k int, err error, full bool) {
	h := c.half(d)
	h.mu.Lock()
	h.transK, h.transErr, h.transFull = h.writes+k, err, full
	h.mu.Unlock()
}

// LateFailWrite: the k-th write call from now on is delivered completely and then reported as failed with err,
// after wait() has returned; later writes fail at once.
func (c vfConnCtl) LateFailWrite(d vfDir, k int, err error, wait func()) {
	h := c.half(d)
	h.mu.Lock()
	h.lateFailK, h.lateErr, h.lateWait = h.writes+k, err, wait
	h.mu.Unlock()
}

func (c vfConnCtl) Delivered(d vfDir) int64 {
	h := c.half(d)
	h.mu.Lock()
	defer h.mu.Unlock()
	return h.delivered
}

func (c vfConnCtl) Written(d vfDir) int64 {
	h := c.half(d)
	h.mu.Lock()
	defer h.mu.Unlock()
	return h.written
}

func (c vfConnCtl) Writes(d vfDir) int {
	h := c.half(d)
	h.mu.Lock()
	defer h.mu.Unlock()
	return h.writes
}

// ---- incremental frame parser ---------------------------------------------------

// vfFramer reassembles length-prefixed frames from arbitrary write chunks.
type vfFramer struct {
	buf []byte
	Bad bool // a length outside (0, 256 KiB] was seen; parsing stops
}

// Feed returns the complete frame bodies (type byte + payload, without the length prefix).
func (f *vfFramer) Feed(p []byte) [][]byte {
	if f.Bad {
		return nil
	}
	f.buf = append(f.buf, p...)
	var out [][]byte
	for len(f.buf) >= 4 {
		l := binary.BigEndian.Uint32(f.buf)
		if l == 0 || l > 4<<20 { // replies may exceed the 256 KiB message limit when a server is configured with a larger maximum payload
			f.Bad = true
			return out
		}
		if uint32(len(f.buf)-4) < l {
			break
		}
		body := make([]byte, l)
		copy(body, f.buf[4:4+l])
		out = append(out, body)
		f.buf = f.buf[4+l:]
	}
	return out
}

func (f *vfFramer) Pending() int { return len(f.buf) }
