//go:build verif

package sftp

// C16 — A directory listing returns every entry exactly once.

import (
	"context"
	"fmt"
	"io"
	"os"
	"path/filepath"
	"runtime"
	"sort"
	"strings"
	"sync/atomic"
	"syscall"
	"testing"
	"time"
)

func TestVerifC16(t *testing.T) {
	vfMain(t, vfCheck{
		ID: "C16", Level: "exploration",
		Rule:        "os-backed server: real directories of each size in the tier's size list (quick: around the 128-entry batch edges up to 300; thorough: every size 0..300) with awkward names (spaces, newlines, non-UTF-8, hidden, and directories in which every name has 150-250 bytes so that one batch exceeds 32 KiB); request server: MaxFilelist in {1,2,3,7,(100)} x every size 0..2*batch+3 x lister behaviours {EOF with the last entries, EOF on the following call, short batches with nil error, listers that emit . and ..} x name sets. Oracle: multiset equality of (name,size,mode,mtime,owner; request-server entries without owner, with FileInfoUidGid, and with FileInfoUidGid over a Stat_t of another owner) against the directory / the lister's entries, READDIR round trips bounded (a listing still asking after 2000 requests is cut and judged non-terminating), no stuck state. A class is (server, batch, size, behaviour).",
		Assumptions: []string{"entry names are non-empty and contain no '/' (the client applies path.Base)", "listers make progress (a lister returning (0,nil) forever is outside the ListerAt contract)", "MaxFilelist is a package-level variable, changed only between sessions"},
		Units: func(tier vfTier, seed uint64) int {
			if tier == vfThorough {
				return 16
			}
			return 6
		},
		Shards: func(tier vfTier) int {
			if tier == vfThorough {
				return 8
			}
			return 6
		},
		Floors: map[string]int64{"listings": 300, "listings_spanning_2_batches": 50, "listings_spanning_3_batches": 50, "os_dir_sizes": 8},
		Run:    c16Run,
	})
}

type c16Info struct {
	name  string
	size  int64
	mode  os.FileMode
	mtime int64
}

func (i c16Info) Name() string       { return i.name }
func (i c16Info) Size() int64        { return i.size }
func (i c16Info) Mode() os.FileMode  { return i.mode }
func (i c16Info) ModTime() time.Time { return time.Unix(i.mtime, 0) }
func (i c16Info) IsDir() bool        { return i.mode.IsDir() }
func (i c16Info) Sys() any           { return nil }

// c16Owned reports its owner through FileInfoUidGid; sys, if set, is a Stat_t with ANOTHER owner
// (a handler wrapping a local file and mapping ownership): the documented precedence is the callbacks.
type c16Owned struct {
	c16Info
	uid, gid uint32
	sys      any
}

func (i c16Owned) Uid() uint32 { return i.uid }
func (i c16Owned) Gid() uint32 { return i.gid }
func (i c16Owned) Sys() any    { return i.sys }

func c16Owner(fi os.FileInfo) string {
	switch st := fi.Sys().(type) {
	case *FileStat:
		return fmt.Sprintf("%d:%d", st.UID, st.GID)
	case *syscall.Stat_t:
		return fmt.Sprintf("%d:%d", st.Uid, st.Gid)
	}
	return "?"
}

// c16Lister implements the legal ListAt behaviours.
type c16Lister struct {
	ents      []os.FileInfo
	behaviour int // 0: EOF with last entries, 1: EOF on the following call, 2: short batches (nil error), 3: short + EOF later
	calls     atomic.Int32
	short     int
	onCall    func(n int32) // runs at the start of the n-th ListAt call
}

func (l *c16Lister) ListAt(out []os.FileInfo, off int64) (int, error) {
	if n := l.calls.Add(1); l.onCall != nil {
		l.onCall(n)
	}
	if off >= int64(len(l.ents)) {
		return 0, io.EOF
	}
	rest := l.ents[off:]
	max := len(out)
	if l.behaviour >= 2 && max > l.short {
		max = l.short
	}
	n := copy(out[:max], rest)
	atEnd := int(off)+n >= len(l.ents)
	switch l.behaviour {
	case 0, 3:
		if atEnd {
			return n, io.EOF
		}
	}
	return n, nil
}

type c16Handlers struct {
	l    *c16Lister
	bind bool // the lister works only while the context of the request that created it is live (a cursor, a remote listing)
}

type c16Bound struct {
	l   *c16Lister
	ctx context.Context
}

func (b c16Bound) ListAt(out []os.FileInfo, off int64) (int, error) {
	if err := b.ctx.Err(); err != nil {
		return 0, err
	}
	return b.l.ListAt(out, off)
}

func (h c16Handlers) Filelist(r *Request) (ListerAt, error) {
	if r.Method == "List" {
		if h.bind {
			return c16Bound{h.l, r.Context()}, nil
		}
		return h.l, nil
	}
	return nil, os.ErrNotExist
}

func c16Names(r *vfRand, n int, style int) []string {
	seen := map[string]bool{}
	var out []string
	for len(out) < n {
		var s string
		switch {
		case style == 1 && len(out)%5 == 0:
			s = fmt.Sprintf("with space %d", len(out))
		case style == 1 && len(out)%5 == 1:
			s = fmt.Sprintf("new\nline%d", len(out))
		case style == 1 && len(out)%5 == 2:
			s = fmt.Sprintf("\xff\xfebin%d", len(out))
		case style == 1 && len(out)%5 == 3:
			s = fmt.Sprintf("%0255d", len(out))
		case style == 2:
			s = fmt.Sprintf(".hidden%d", len(out))
		case style == 3:
			// every name long: one 128-entry batch marshals to far more than 32 KiB
			s = fmt.Sprintf("%0*d", 150+len(out)%100, len(out))
		default:
			s = fmt.Sprintf("f%04d", len(out))
		}
		if !seen[s] {
			seen[s] = true
			out = append(out, s)
		}
	}
	return out
}

func c16Key(name string, size int64, mode os.FileMode, mtime int64, owner string) string {
	return fmt.Sprintf("%q|%d|%v|%d|%s", name, size, mode, mtime, owner)
}

// c16ReaddirLimit: the number of READDIR requests after which a listing is judged not to terminate (raised around the
// one listing that legitimately needs more)
var c16ReaddirLimit int32 = 2000

// c16List runs Client.ReadDir under the stuck detector and counts READDIR requests.
func c16List(u *vfUnit, sess *vfSession, dir, label string) ([]os.FileInfo, int, bool) {
	var readdirs atomic.Int32
	var runaway atomic.Bool
	var fr vfFramer
	sess.Ctl.Tap(vfC2S, func(p []byte) {
		for _, b := range fr.Feed(p) {
			if len(b) > 0 && b[0] == rfReaddir {
				// termination in logical steps: no directory here has more than ~300 entries and every
				// legal batch makes progress, so a listing that is still asking after 2000 READDIR
				// requests does not terminate. The connection is cut so that the call can be judged.
				if readdirs.Add(1) == c16ReaddirLimit && runaway.CompareAndSwap(false, true) {
					go sess.cEnd.ForceClose()
				}
			}
		}
	})
	defer sess.Ctl.Tap(vfC2S, nil)
	var ents []os.FileInfo
	var err error
	done := vfGo(func() { ents, err = sess.C.ReadDir(dir) })
	defer func() {
		if runaway.Load() {
			u.Violation("listing-does-not-terminate:"+label, fmt.Sprintf("ReadDir (%s) was still sending READDIR requests after %d round trips; the connection was cut", label, c16ReaddirLimit), map[string]any{"case": label})
		}
	}()
	if w, dump := vfAwait(done, 120*time.Second); w != vfDone {
		if w == vfStuck {
			u.Violation("listing-hang:"+label, fmt.Sprintf("ReadDir does not terminate (%s)\n%s", label, vfTrim(dump, 2500)), map[string]any{"case": label})
		} else {
			u.Inconclusive("ReadDir %s: wall-clock cap", label)
		}
		return nil, int(readdirs.Load()), false
	}
	if err != nil && runaway.Load() {
		return nil, int(readdirs.Load()), false
	}
	if err != nil {
		u.Violation("listing-error:"+label, fmt.Sprintf("ReadDir failed (%s): %v", label, err), map[string]any{"case": label})
		return nil, int(readdirs.Load()), false
	}
	return ents, int(readdirs.Load()), true
}

func c16Compare(u *vfUnit, label string, got []os.FileInfo, want []string) {
	var g []string
	for _, e := range got {
		g = append(g, c16Key(e.Name(), e.Size(), e.Mode(), e.ModTime().Unix(), c16Owner(e)))
	}
	sort.Strings(g)
	w := append([]string(nil), want...)
	sort.Strings(w)
	if strings.Join(g, "\n") == strings.Join(w, "\n") {
		return
	}
	// describe the difference
	cnt := map[string]int{}
	for _, x := range w {
		cnt[x]++
	}
	for _, x := range g {
		cnt[x]--
	}
	var lost, extra []string
	for k, v := range cnt {
		if v > 0 {
			lost = append(lost, k)
		} else if v < 0 {
			extra = append(extra, k)
		}
	}
	sort.Strings(lost)
	sort.Strings(extra)
	if len(lost) > 4 {
		lost = lost[:4]
	}
	if len(extra) > 4 {
		extra = extra[:4]
	}
	u.Violation("listing-mismatch:"+label, fmt.Sprintf("ReadDir (%s) returned %d entries, expected %d; lost %v; duplicated/invented %v", label, len(g), len(w), lost, extra), map[string]any{"case": label})
}

func c16Run(u *vfUnit) {
	units := 6
	if u.Tier == vfThorough {
		units = 16
	}
	if u.Index < units/3 {
		c16OS(u, u.Index, units/3)
	} else {
		c16RS(u, u.Index-units/3, units-units/3)
	}
}

func c16OS(u *vfUnit, part, parts int) {
	sizes := []int{0, 1, 2, 127, 128, 129, 255, 256, 257, 300}
	if u.Tier == vfThorough {
		sizes = nil
		for n := 0; n <= 300; n++ {
			sizes = append(sizes, n)
		}
	}
	base := u.TempDir()
	for _, alloc := range []bool{false, true} {
		sess, err := vfConnect(vfSrvCfg{Kind: vfOS, Alloc: alloc}, vfPipeOpts{})
		if err != nil {
			u.Inconclusive("connect: %v", err)
			return
		}
		type dcase struct{ n, style int }
		var dcases []dcase
		for _, n := range sizes {
			dcases = append(dcases, dcase{n, (n + part) % 3})
		}
		for _, n := range []int{40, 128, 129, 300} {
			dcases = append(dcases, dcase{n, 3})
		}
		for i, dc := range dcases {
			if i%parts != part {
				continue
			}
			n, style := dc.n, dc.style
			if style == 3 {
				u.Count("os_listings_long_names", 1)
			}
			dir := filepath.Join(base, fmt.Sprintf("d%d-%v", n, alloc))
			os.Mkdir(dir, 0o755)
			names := c16Names(u.Rng, n, style)
			var want []string
			for j, nm := range names {
				p := filepath.Join(dir, nm)
				switch j % 7 {
				case 3:
					os.Mkdir(p, 0o700)
				case 5:
					os.Symlink("f0000", p)
				default:
					os.WriteFile(p, make([]byte, j%50), os.FileMode(0o600+j%64))
				}
				fi, err := os.Lstat(p)
				if err != nil {
					u.Inconclusive("cannot create %q: %v", nm, err)
					return
				}
				want = append(want, c16Key(fi.Name(), fi.Size(), fi.Mode(), fi.ModTime().Unix(), c16Owner(fi)))
			}
			label := fmt.Sprintf("Server/alloc=%v/n=%d/names=%d", alloc, n, style)
			u.Eval(label)
			u.Count("listings", 1)
			u.SetAdd("os_dir_sizes", fmt.Sprint(n))
			got, trips, ok := c16List(u, sess, dir, label)
			if ok {
				c16Compare(u, label, got, want)
				if limit := 2*n/128 + 4; trips > limit {
					u.Violation("listing-roundtrips:"+label, fmt.Sprintf("%d READDIR round trips for %d entries (bound %d)", trips, n, limit), nil)
				}
				if n > 128 {
					u.Count("listings_spanning_2_batches", 1)
				}
				if n > 256 {
					u.Count("listings_spanning_3_batches", 1)
				}
				u.Max("readdir_round_trips", int64(trips))
			}
			if ok && i%3 == 0 {
				// the same directory addressed through a symbolic link
				link := dir + ".link"
				os.Symlink(filepath.Base(dir), link)
				if got2, _, ok2 := c16List(u, sess, link, label+"/via-symlink"); ok2 {
					c16Compare(u, label+"/via-symlink", got2, want)
				}
				u.Count("listings", 1)
				os.Remove(link)
			}
			os.RemoveAll(dir)
		}
		if msg := sess.Close(); msg != "" {
			u.Violation("listing-close", msg, nil)
		}
	}
	u.Sample(map[string]any{"server": "Server", "sizes": fmt.Sprint(sizes[:min(len(sizes), 12)]), "oracle": "multiset of (name,size,mode,mtime) vs os.Lstat"})
}

// c16InMem: the package's own example backend: a directory of 150 entries listed by its name and through a
// symbolic link to it, in small and default batches.
func c16InMem(u *vfUnit) {
	defer func() { MaxFilelist = 100 }()
	for _, batch := range []int{7, 100} {
		MaxFilelist = int64(batch)
		sess, err := vfConnect(vfSrvCfg{Kind: vfRS, H: InMemHandler()}, vfPipeOpts{})
		if err != nil {
			u.Inconclusive("connect: %v", err)
			return
		}
		c := sess.C
		c.Mkdir("/real")
		var want []string
		for i := 0; i < 150; i++ {
			name := fmt.Sprintf("e%03d", i)
			if i%10 == 3 {
				c.Mkdir("/real/" + name)
			} else if f, err := c.Create("/real/" + name); err == nil {
				f.Write(make([]byte, i%40))
				f.Close()
			}
			want = append(want, name)
		}
		c.Symlink("/real", "/lnk")
		for _, dir := range []string{"/real", "/lnk"} {
			label := fmt.Sprintf("RequestServer(InMemHandler)/batch=%d/dir=%s", batch, dir)
			u.Eval(label)
			u.Count("listings", 1)
			got, _, ok := c16List(u, sess, dir, label)
			if !ok {
				continue
			}
			var names []string
			for _, e := range got {
				names = append(names, e.Name())
			}
			sort.Strings(names)
			if strings.Join(names, ",") != strings.Join(want, ",") {
				u.Violation("listing-mismatch:"+label, fmt.Sprintf("ReadDir(%s) of the in-memory backend returned %d entries, the directory has %d (first names: %v)", dir, len(names), len(want), names[:min(len(names), 5)]), nil)
			}
		}
		if msg := sess.Close(); msg != "" {
			u.Violation("listing-close", msg, nil)
		}
	}
}

// c16Abandoned: the caller of ReadDirContext gives up (its context is cancelled) in the middle of a listing of several
// batches. What it gets back is either the whole listing, or an error beside the entries received so far — never a
// part of the listing passed off as the listing.
func c16Abandoned(u *vfUnit) {
	defer func() { MaxFilelist = 100 }()
	for _, at := range []int32{1, 2, 3} {
		MaxFilelist = 10
		l := &c16Lister{behaviour: int(at) % 2}
		for j := 0; j < 25; j++ {
			l.ents = append(l.ents, c16Info{fmt.Sprintf("e%02d", j), int64(j), 0o644, int64(1500000000 + j)})
		}
		ctx, cancel := context.WithCancel(context.Background())
		l.onCall = func(n int32) {
			if n == at {
				cancel()
				for spin := 0; spin < 300; spin++ {
					runtime.Gosched() // let the caller notice before the batch is handed out
				}
			}
		}
		sess, err := vfConnect(vfSrvCfg{Kind: vfRS, H: Handlers{FileList: c16Handlers{l, false}}}, vfPipeOpts{})
		if err != nil {
			u.Inconclusive("connect: %v", err)
			cancel()
			return
		}
		var ents []os.FileInfo
		var lerr error
		label := fmt.Sprintf("RequestServer/abandoned-in-batch-%d", at)
		if w, dump := vfAwait(vfGo(func() { ents, lerr = sess.C.ReadDirContext(ctx, "/dir") }), 60*time.Second); w != vfDone {
			u.Violation("listing-hang:"+label, "ReadDirContext does not return\n"+vfTrim(dump, 2000), nil)
			cancel()
			return
		}
		cancel()
		u.Count("listings_abandoned_by_their_caller", 1)
		if lerr == nil && len(ents) != 25 {
			u.Violation("partial-listing-without-error", fmt.Sprintf("%s: ReadDirContext returned %d of 25 entries and a nil error after its context was cancelled", label, len(ents)), nil)
		}
		// the session is as good as before
		if again, err := sess.C.ReadDir("/dir"); err != nil || len(again) != 25 {
			u.Violation("listing-after-abandoned-listing", fmt.Sprintf("%s: the next ReadDir returned %d entries, err %v", label, len(again), err), nil)
		}
		if msg := sess.Close(); msg != "" {
			u.Violation("session-close", label+": "+msg, nil)
		}
	}
}

func c16RS(u *vfUnit, part, parts int) {
	if part == 0 {
		c16InMem(u)
		c16Abandoned(u)
	}
	defer func() { MaxFilelist = 100 }()
	batches := []int{1, 2, 3, 7}
	if u.Tier == vfThorough {
		batches = append(batches, 100)
	}
	if part == 0 {
		// MaxFilelist is the embedder's to raise as well: batches of more than a hundred entries
		batches = append(batches, 250)
	}
	caseNo := 0
	for _, batch := range batches {
		MaxFilelist = int64(batch)
		var ns []int
		for n := 0; n <= 2*batch+3; n++ {
			ns = append(ns, n)
		}
		if batch == 1 {
			// a listing of more than a thousand batches (any number of entries, however small the batches)
			ns = append(ns, 1100)
			ns = append(ns, 17000) // tens of thousands of batches
		}
		for _, n := range ns {
			for behaviour := 0; behaviour < 4; behaviour++ {
				for _, dots := range []bool{false, true} {
					if n > 100 && (behaviour != 0 || dots) {
						continue
					}
					caseNo++
					if caseNo%parts != part && n <= 100 {
						continue
					}
					if n > 100 && part != 0 {
						continue
					}
					style := caseNo % 3
					names := c16Names(u.Rng, n, style)
					l := &c16Lister{behaviour: behaviour, short: 1 + caseNo%3}
					var want []string
					if dots {
						l.ents = append(l.ents, c16Info{".", 0, os.ModeDir | 0o755, 1}, c16Info{"..", 0, os.ModeDir | 0o755, 2})
					}
					for j, nm := range names {
						mode := os.FileMode(0o600 + j%64)
						switch {
						case j%5 == 2:
							mode |= os.ModeDir
						case j%11 == 7: // every file kind a lister can report
							mode |= os.ModeDevice | os.ModeCharDevice
						case j%11 == 9:
							mode |= os.ModeNamedPipe
						case j%11 == 3:
							mode |= os.ModeSymlink
						case j%13 == 5:
							mode |= os.ModeSocket
						case j%13 == 6:
							mode |= os.ModeDevice
						}
						inf := c16Info{nm, int64(j*31 + 1), mode, 1500000000 + int64(j)}
						switch j % 3 {
						case 1:
							o := c16Owned{c16Info: inf, uid: uint32(2000 + j), gid: uint32(3000 + j)}
							l.ents = append(l.ents, o)
							want = append(want, c16Key(nm, inf.size, mode, inf.mtime, fmt.Sprintf("%d:%d", o.uid, o.gid)))
						case 2:
							o := c16Owned{c16Info: inf, uid: uint32(4000 + j), gid: uint32(5000 + j), sys: &syscall.Stat_t{Uid: 65534, Gid: 65533, Nlink: 1}}
							l.ents = append(l.ents, o)
							want = append(want, c16Key(nm, inf.size, mode, inf.mtime, fmt.Sprintf("%d:%d", o.uid, o.gid)))
						default:
							l.ents = append(l.ents, inf)
							want = append(want, c16Key(nm, inf.size, mode, inf.mtime, "0:0"))
						}
					}
					if dots && n > 1 {
						// . and .. in the middle as well
						l.ents = append(l.ents[:3], append([]os.FileInfo{c16Info{".", 0, os.ModeDir | 0o755, 3}}, l.ents[3:]...)...)
					}
					alloc := caseNo%2 == 0
					sess, err := vfConnect(vfSrvCfg{Kind: vfRS, Alloc: alloc, H: Handlers{FileList: c16Handlers{l, caseNo%3 == 1}}}, vfPipeOpts{})
					if err != nil {
						u.Inconclusive("connect: %v", err)
						return
					}
					label := fmt.Sprintf("RequestServer/batch=%d/n=%d/behaviour=%d/dots=%v", batch, n, behaviour, dots)
					u.Eval(label)
					u.Count("listings", 1)
					c16ReaddirLimit = int32(max(2000, n+2000))
					got, trips, ok := c16List(u, sess, "/dir", label)
					c16ReaddirLimit = 2000
					if ok {
						c16Compare(u, label, got, want)
						total := len(l.ents)
						per := batch
						if behaviour >= 2 && l.short < per {
							per = l.short
						}
						if limit := (total+per-1)/per + 3; trips > limit {
							u.Violation("listing-roundtrips:RequestServer", fmt.Sprintf("%s: %d READDIR round trips for %d lister entries, %d per call (bound %d)", label, trips, total, per, limit), map[string]any{"case": label})
						}
						if total > per {
							u.Count("listings_spanning_2_batches", 1)
						}
						if total > 2*per {
							u.Count("listings_spanning_3_batches", 1)
						}
						u.Max("readdir_round_trips", int64(trips))
					}
					if msg := sess.Close(); msg != "" {
						u.Violation("listing-close", msg, nil)
					}
					if caseNo == part+parts {
						u.Sample(map[string]any{"server": "RequestServer", "case": label, "lister_entries": len(l.ents), "round_trips": trips})
					}
				}
			}
		}
	}
}
