//go:build verif

package sftp

// C15 — Concurrent single-packet operations are linearizable.
// Histories are recorded at the client boundary (call/return stamps from one
// atomic counter) and checked with porcupine against a plain byte-array model.

import (
	"fmt"
	"io"
	"os"
	"path/filepath"
	"runtime"
	"sync"
	"sync/atomic"
	"testing"
	"time"

	"github.com/anishathalye/porcupine"
)

func TestVerifC15(t *testing.T) {
	vfMain(t, vfCheck{
		ID: "C15", Level: "exploration",
		Rule:        "many short histories: 2..8 goroutines x 5..12 single-packet operations (ReadAt, WriteAt with a fill value unique in the history, size queries via File.Stat and Client.Stat) on a 16..64-byte file through 1..3 handles of one Client; request server over the mutex-atomic store: multi-byte operations, one partition; os-backed server: 1-byte operations partitioned by offset (a pread concurrent with a pwrite may tear on the page cache; a byte cannot). Allocator on/off, reorder proxy, worker/ready hook delays, GOMAXPROCS in {1,2,4,16}. Plus, in every eighth unit: whole-range writes against maximum-size reads (32 KiB, and 48 KiB with the maximum payload raised to 64 KiB) that must be uniform and reach the store as one ReadAt each; and concurrent Write resp. Read calls on ONE File (implicit offset) with unique 16-byte records inside a pre-sized file, which must leave every record exactly once resp. partition the file. Checked with porcupine v1.3.0 (time limit 3 min quick / 10 min thorough per history; a history the checker gives up on is counted as undecided, the run is inconclusive only if decided histories fall below the floor). A class is (server, allocator, goroutines, handles, GOMAXPROCS); non-trivial when operations really overlapped in time.",
		Assumptions: []string{"the backing store's own ReadAt/WriteAt are atomic (store mutex; single bytes on the os file)", "file size does not change", "race detector on"},
		Units: func(tier vfTier, seed uint64) int {
			if tier == vfThorough {
				return 8000
			}
			return 32
		},
		Shards: func(tier vfTier) int {
			if tier == vfThorough {
				return 15
			}
			return 8
		},
		Floors: map[string]int64{"histories": 200, "histories_decided": 195, "big_read_histories": 8, "shared_offset_histories": 12, "operations": 5000, "overlapping_operation_pairs": 5000},
		Run:    c15Run,
	})
}

type c15In struct {
	Kind string // r w s
	Off  int
	N    int
	Fill byte
}

type c15Out struct {
	Data string
	Size int
	Err  string
}

var c15Model = porcupine.Model{
	Init: func() any { return "" },
	Step: func(state, input, output any) (bool, any) {
		st := state.(string)
		in := input.(c15In)
		out := output.(c15Out)
		switch in.Kind {
		case "w":
			b := []byte(st)
			for i := 0; i < in.N; i++ {
				b[in.Off+i] = in.Fill
			}
			return true, string(b)
		case "r":
			return out.Data == st[in.Off:in.Off+in.N], st
		default:
			return out.Size == len(st), st
		}
	},
	Equal: func(a, b any) bool { return a.(string) == b.(string) },
	DescribeOperation: func(input, output any) string {
		in := input.(c15In)
		out := output.(c15Out)
		switch in.Kind {
		case "w":
			return fmt.Sprintf("write(off=%d,n=%d,fill=%d)", in.Off, in.N, in.Fill)
		case "r":
			return fmt.Sprintf("read(off=%d,n=%d)=%v", in.Off, in.N, []byte(out.Data))
		}
		return fmt.Sprintf("size()=%d", out.Size)
	},
}

// c15BigReads: single-packet operations of (nearly) the maximum size. Every write replaces the
// whole range a read covers with one fill value, atomically in the store, so a read that is one
// atomic step returns a uniform buffer; and every single-packet read must reach the store as exactly
// one ReadAt (a read silently completed by a second request is not one atomic step).
func c15BigReads(u *vfUnit) {
	r := u.Rng
	// default configuration: 32 KiB packets; every other such unit raises the server's maximum payload and
	// the client's packet size to 64 KiB and works with 48 KiB operations
	span := 32768
	var maxTx uint32
	var copts []ClientOption
	if (u.Index/8)%4 == 2 {
		// the option is documented as one that can only raise the limit: a smaller value changes nothing, a 32 KiB
		// operation stays one packet and one step
		maxTx = []uint32{4096, 1, 32767}[(u.Index/32)%3]
		u.Count("big_read_units_with_a_lowered_max_payload_option", 1)
	}
	if (u.Index/8)%2 == 1 {
		span, maxTx = 49152, 65536
		copts = append(copts, MaxPacketUnchecked(65536))
		u.Count("big_read_units_with_raised_max_payload", 1)
	}
	store := vfNewStore()
	alloc := u.Index%16 >= 8 || (u.Index/8)%4 == 3
	hooks := vfInstallHooks(vfHookCfg{Seed: r.Uint64(), NoLog: true, MaxSleepUs: 80, DelayPct: map[int]int{vhRsWorker: 30, vhPmReady: 20}})
	defer hooks.Uninstall()
	sess, _, err := vfConnectProxied(vfSrvCfg{Kind: vfRS, Alloc: alloc, MaxTx: maxTx, H: store.Handlers(vfHandlerOpt{OpenFile: true})}, 2+r.Intn(4), r.Fork(), copts...)
	if err != nil {
		u.Inconclusive("connect: %v", err)
		return
	}
	for round := 0; round < 4; round++ {
		p := fmt.Sprintf("/big%d", round)
		initial := make([]byte, span+100)
		for i := range initial {
			initial[i] = 1
		}
		store.Put(p, initial)
		var files []*File
		for k := 0; k < 2; k++ {
			f, err := sess.C.OpenFile(p, os.O_RDWR)
			if err != nil {
				u.Violation("open-failed", err.Error(), nil)
				return
			}
			files = append(files, f)
		}
		var clientReads, torn atomic.Int64
		var firstTorn atomic.Value
		var wg sync.WaitGroup
		for g := 0; g < 5; g++ {
			wg.Add(1)
			go func(g int) {
				defer wg.Done()
				gr := vfNewRand(uint64(u.Index)*31 + uint64(round)*7 + uint64(g))
				for it := 0; it < 12; it++ {
					f := files[gr.Intn(2)]
					if g < 2 {
						b := make([]byte, span)
						fill := byte(2 + g*100 + it)
						for i := range b {
							b[i] = fill
						}
						if n, err := f.WriteAt(b, 0); err != nil || n != span {
							firstTorn.CompareAndSwap(nil, fmt.Sprintf("WriteAt = (%d, %v)", n, err))
						}
					} else {
						L := vfPick(gr, []int{span - 13, span - 12, span - 8, span - 1, span})
						b := make([]byte, L)
						n, err := f.ReadAt(b, 0)
						clientReads.Add(1)
						if err != nil || n != L {
							firstTorn.CompareAndSwap(nil, fmt.Sprintf("ReadAt(%d) = (%d, %v)", L, n, err))
							continue
						}
						for i := 1; i < L; i++ {
							if b[i] != b[0] {
								torn.Add(1)
								firstTorn.CompareAndSwap(nil, fmt.Sprintf("ReadAt(%d bytes at 0) returned fill %d up to byte %d and fill %d from there: it observed two different whole-range writes", L, b[0], i, b[i]))
								break
							}
						}
					}
				}
			}(g)
		}
		done := vfGo(func() { wg.Wait() })
		label := fmt.Sprintf("big-reads/alloc=%v/span=%d/round=%d", alloc, span, round)
		if w, dump := vfAwait(done, 120*time.Second); w != vfDone {
			if w == vfStuck {
				u.Violation("history-hangs", label+": operations never return\n"+vfTrim(dump, 2500), nil)
			} else {
				u.Inconclusive("%s: wall-clock cap", label)
			}
			return
		}
		for _, f := range files {
			f.Close()
		}
		u.Eval(label)
		u.Count("big_read_histories", 1)
		u.Count("operations", 60)
		var backing int64
		for _, o := range store.Objs() {
			if o.path == p {
				backing += int64(o.reads.Load())
			}
		}
		if v := firstTorn.Load(); v != nil {
			u.Violation("not-linearizable:RequestServer:max-size-read", fmt.Sprintf("%s: %s", label, v), map[string]any{"config": label})
		}
		if backing != clientReads.Load() {
			u.Violation("single-packet-read-split:RequestServer", fmt.Sprintf("%s: %d single-packet in-extent ReadAt calls reached the backing store as %d ReadAt calls: a read was completed with a second request and is not one atomic step", label, clientReads.Load(), backing), map[string]any{"config": label})
		}
	}
	if msg := sess.Close(); msg != "" {
		u.Violation("session-close", msg, nil)
	}
}

// c15SharedOffset: several goroutines call Write (resp. Read) on ONE File, i.e. single-packet
// operations at the handle's implicit offset, within the extent of a pre-sized file. Records are
// unique, so the outcome is decidable without search: if every call takes effect atomically
// (read the offset, transfer, advance) the file ends up holding every record exactly once in some
// order, and the reads return pairwise distinct records that partition the file.
func c15SharedOffset(u *vfUnit) {
	r := u.Rng
	const rec = 16
	for round := 0; round < 6; round++ {
		kind := vfKind(round % 2)
		G, m := 2+r.Intn(5), 4+r.Intn(6)
		total := G * m * rec
		var store *vfStore
		p := "/shared"
		sc := vfSrvCfg{Kind: kind, Alloc: round%4 >= 2}
		if kind == vfRS {
			store = vfNewStore()
			sc.H = store.Handlers(vfHandlerOpt{OpenFile: true})
			store.Put(p, make([]byte, total))
		} else {
			p = filepath.Join(u.TempDir(), fmt.Sprintf("shared%d", round))
			os.WriteFile(p, make([]byte, total), 0o644)
		}
		sess, _, err := vfConnectProxied(sc, 2+r.Intn(4), r.Fork())
		if err != nil {
			u.Inconclusive("connect: %v", err)
			return
		}
		label := fmt.Sprintf("shared-offset/%v/alloc=%v/goroutines=%d/ops=%d", kind, sc.Alloc, G, m)
		f, err := sess.C.OpenFile(p, os.O_RDWR)
		if err != nil {
			u.Violation("open-failed", label+": "+err.Error(), nil)
			return
		}
		record := func(g, it int) []byte {
			return []byte(fmt.Sprintf("<%03d:%03d:%05d>\n", g, it, round*1000+g*31+it))[:rec]
		}
		var bad atomic.Value
		run := func(fn func(g, it int)) bool {
			var wg sync.WaitGroup
			for g := 0; g < G; g++ {
				wg.Add(1)
				go func(g int) {
					defer wg.Done()
					for it := 0; it < m; it++ {
						fn(g, it)
					}
				}(g)
			}
			done := vfGo(func() { wg.Wait() })
			if w, dump := vfAwait(done, 120*time.Second); w != vfDone {
				if w == vfStuck {
					u.Violation("history-hangs", label+": operations never return\n"+vfTrim(dump, 2500), nil)
				} else {
					u.Inconclusive("%s: wall-clock cap", label)
				}
				return false
			}
			return true
		}
		// phase 1: concurrent Write calls on the one File
		if !run(func(g, it int) {
			if n, err := f.Write(record(g, it)); err != nil || n != rec {
				bad.CompareAndSwap(nil, fmt.Sprintf("Write = (%d, %v)", n, err))
			}
		}) {
			return
		}
		var content []byte
		if kind == vfRS {
			content, _ = store.Get(p)
		} else {
			content, _ = os.ReadFile(p)
		}
		seen := map[string]int{}
		for o := 0; o+rec <= len(content); o += rec {
			seen[string(content[o:o+rec])]++
		}
		missing, dup := 0, 0
		for g := 0; g < G; g++ {
			for it := 0; it < m; it++ {
				switch seen[string(record(g, it))] {
				case 0:
					missing++
				case 1:
				default:
					dup++
				}
			}
		}
		off, _ := f.Seek(0, io.SeekCurrent)
		if missing > 0 || dup > 0 || len(content) != total || off != int64(total) || bad.Load() != nil {
			u.Violation("not-linearizable:shared-offset-writes:"+kind.String(), fmt.Sprintf("%s: %d concurrent Write calls of %d-byte unique records on one File completed; the file (%d bytes, expected %d) lacks %d of the records and holds %d more than once, the File offset is %d (%v): some completed write took no effect of its own", label, G*m, rec, len(content), total, missing, dup, off, bad.Load()), map[string]any{"config": label})
		}
		// phase 2: concurrent Read calls on the one File, from the start
		f.Seek(0, io.SeekStart)
		var mu sync.Mutex
		got := map[string]int{}
		if !run(func(g, it int) {
			b := make([]byte, rec)
			n, err := f.Read(b)
			if err != nil || n != rec {
				bad.CompareAndSwap(nil, fmt.Sprintf("Read = (%d, %v)", n, err))
				return
			}
			mu.Lock()
			got[string(b)]++
			mu.Unlock()
		}) {
			return
		}
		rdup := 0
		for _, c := range got {
			if c > 1 {
				rdup++
			}
		}
		if missing == 0 && dup == 0 && (rdup > 0 || len(got) != G*m || bad.Load() != nil) {
			u.Violation("not-linearizable:shared-offset-reads:"+kind.String(), fmt.Sprintf("%s: %d concurrent Read calls on one File returned %d distinct records, %d of them more than once (%v): the reads do not partition the file", label, G*m, len(got), rdup, bad.Load()), map[string]any{"config": label})
		}
		f.Close()
		u.Eval(label)
		u.Count("shared_offset_histories", 1)
		u.Count("operations", int64(2*G*m))
		if msg := sess.Close(); msg != "" {
			u.Violation("session-close", msg, nil)
		}
	}
}

func c15Run(u *vfUnit) {
	if u.Index%8 == 7 {
		c15BigReads(u)
		c15SharedOffset(u)
		return
	}
	r := u.Rng
	kind := vfKind(u.Index % 2)
	alloc := (u.Index/2)%2 == 1
	procs := []int{1, 2, 4, 16}[(u.Index/4)%4]
	prev := runtime.GOMAXPROCS(procs)
	defer runtime.GOMAXPROCS(prev)
	var store *vfStore
	dir := ""
	sc := vfSrvCfg{Kind: kind, Alloc: alloc}
	rr := r.Fork()
	var dmu sync.Mutex
	if kind == vfRS {
		store = vfNewStore()
		sc.H = store.Handlers(vfHandlerOpt{OpenFile: true, CmdAll: true, ListAll: true})
		store.Delay = func(write bool, off int64) {
			dmu.Lock()
			d := rr.Intn(120)
			dmu.Unlock()
			if d > 60 {
				time.Sleep(time.Duration(d) * time.Microsecond)
			} else if d > 30 {
				runtime.Gosched()
			}
		}
	} else {
		dir = u.TempDir()
	}
	hooks := vfInstallHooks(vfHookCfg{Seed: r.Uint64(), NoLog: true, MaxSleepUs: 80, DelayPct: map[int]int{vhSrvWorker: 30, vhRsWorker: 30, vhPmReady: 20, vhPmSendBegin: 10, vhCliBeforeDeliver: 10}})
	defer hooks.Uninstall()
	sess, _, err := vfConnectProxied(sc, 2+r.Intn(6), r.Fork())
	if err != nil {
		u.Inconclusive("connect: %v", err)
		return
	}
	nHist := 10
	for hi := 0; hi < nHist; hi++ {
		size := 16 + r.Intn(49)
		nG := 2 + r.Intn(7)
		nH := 1 + r.Intn(3)
		p := fmt.Sprintf("/lin%d", hi)
		initial := make([]byte, size)
		if kind == vfOS {
			p = filepath.Join(dir, fmt.Sprintf("lin%d", hi))
			os.WriteFile(p, initial, 0o644)
		} else {
			store.Put(p, initial)
		}
		var files []*File
		for k := 0; k < nH; k++ {
			f, err := sess.C.OpenFile(p, os.O_RDWR)
			if err != nil {
				u.Violation("open-failed", err.Error(), nil)
				return
			}
			files = append(files, f)
		}
		var clock atomic.Int64
		var mu sync.Mutex
		var ops []porcupine.Operation
		var opErr atomic.Value
		var fill atomic.Int32
		var wg sync.WaitGroup
		start := make(chan struct{})
		for g := 0; g < nG; g++ {
			wg.Add(1)
			go func(g int) {
				defer wg.Done()
				gr := vfNewRand(uint64(u.Index)*7919 + uint64(hi)*131 + uint64(g))
				<-start
				n := 5 + gr.Intn(8)
				for it := 0; it < n; it++ {
					f := files[gr.Intn(len(files))]
					in := c15In{}
					maxLen := 8
					if kind == vfOS {
						maxLen = 1
					}
					switch x := gr.Intn(10); {
					case x < 4:
						in.Kind = "w"
						in.N = 1 + gr.Intn(maxLen)
						in.Off = gr.Intn(size - in.N + 1)
						in.Fill = byte(fill.Add(1))
					case x < 9:
						in.Kind = "r"
						in.N = 1 + gr.Intn(maxLen)
						in.Off = gr.Intn(size - in.N + 1)
					default:
						in.Kind = "s"
					}
					var out c15Out
					call := clock.Add(1)
					switch in.Kind {
					case "w":
						b := make([]byte, in.N)
						for i := range b {
							b[i] = in.Fill
						}
						nn, err := f.WriteAt(b, int64(in.Off))
						if err != nil || nn != in.N {
							out.Err = fmt.Sprintf("WriteAt=(%d,%v)", nn, err)
						}
					case "r":
						b := make([]byte, in.N)
						nn, err := f.ReadAt(b, int64(in.Off))
						if err != nil || nn != in.N {
							out.Err = fmt.Sprintf("ReadAt=(%d,%v)", nn, err)
						}
						out.Data = string(b)
					case "s":
						var fi os.FileInfo
						var err error
						if it%2 == 0 {
							fi, err = f.Stat()
						} else {
							fi, err = sess.C.Stat(p)
						}
						if err != nil {
							out.Err = fmt.Sprintf("Stat=%v", err)
						} else {
							out.Size = int(fi.Size())
						}
					}
					ret := clock.Add(1)
					if out.Err != "" {
						opErr.CompareAndSwap(nil, fmt.Sprintf("%+v: %s", in, out.Err))
					}
					mu.Lock()
					ops = append(ops, porcupine.Operation{ClientId: g, Input: in, Call: call, Output: out, Return: ret})
					mu.Unlock()
				}
			}(g)
		}
		close(start)
		done := vfGo(func() { wg.Wait() })
		label := fmt.Sprintf("%v/alloc=%v/procs=%d/goroutines=%d/handles=%d/size=%d", kind, alloc, procs, nG, nH, size)
		if w, dump := vfAwait(done, 120*time.Second); w != vfDone {
			if w == vfStuck {
				u.Violation("history-hangs", label+": operations never return\n"+vfTrim(dump, 2500), nil)
			} else {
				u.Inconclusive("%s: wall-clock cap", label)
			}
			return
		}
		for _, f := range files {
			f.Close()
		}
		u.Eval(fmt.Sprintf("%v/alloc=%v/procs=%d/g=%d/h=%d", kind, alloc, procs, nG, nH))
		u.Count("histories", 1)
		u.Count("operations", int64(len(ops)))
		// how many pairs really overlapped
		overlap := 0
		for i := range ops {
			for j := i + 1; j < len(ops); j++ {
				if ops[i].Call < ops[j].Return && ops[j].Call < ops[i].Return && ops[i].ClientId != ops[j].ClientId {
					overlap++
				}
			}
		}
		u.Count("overlapping_operation_pairs", int64(overlap))
		witness := func() map[string]any {
			var l []string
			for _, o := range ops {
				l = append(l, fmt.Sprintf("c%d [%d,%d] %s", o.ClientId, o.Call, o.Return, c15Model.DescribeOperation(o.Input, o.Output)))
			}
			return map[string]any{"config": label, "history": l, "unit": u.Index, "history_index": hi}
		}
		if v := opErr.Load(); v != nil {
			u.Violation("operation-error:"+kind.String(), fmt.Sprintf("%s: an in-range single-packet operation failed: %s", label, v), witness())
			continue
		}
		// model with the right initial state and partitioning
		m := c15Model
		m.Init = func() any { return string(make([]byte, size)) }
		if kind == vfOS {
			// 1-byte operations: one partition per offset; size queries form their own partition
			m.Partition = func(history []porcupine.Operation) [][]porcupine.Operation {
				parts := map[int][]porcupine.Operation{}
				for _, o := range history {
					in := o.Input.(c15In)
					k := in.Off
					if in.Kind == "s" {
						k = -1
					}
					parts[k] = append(parts[k], o)
				}
				var out [][]porcupine.Operation
				for _, p := range parts {
					out = append(out, p)
				}
				return out
			}
			// in a per-offset partition the state is still the whole array; operations touch only their byte
		}
		// The checker's time limit is a safety net in wall-clock time and says nothing about the history: on a
		// loaded machine a 60 s limit was once hit by an ordinary 66-operation history. The limit is generous,
		// a history the checker gives up on is counted as undecided (neither held nor violated), and the
		// run as a whole is inconclusive only if the decided histories fall below the coverage floor.
		limit := 3 * time.Minute
		if u.Tier == vfThorough {
			limit = 10 * time.Minute
		}
		res := porcupine.CheckOperationsTimeout(m, ops, limit)
		switch res {
		case porcupine.Illegal:
			u.Count("histories_decided", 1)
			u.Violation("not-linearizable:"+kind.String(), fmt.Sprintf("%s: the recorded history of %d operations has no sequential explanation that respects real-time order", label, len(ops)), witness())
		case porcupine.Unknown:
			u.Count("histories_undecided_checker_time_limit", 1)
		default:
			u.Count("histories_decided", 1)
		}
		if hi == 0 {
			w := witness()
			h := w["history"].([]string)
			u.Sample(map[string]any{"config": label, "operations": len(ops), "overlapping_pairs": overlap, "first_ops": h[:min(len(h), 6)]})
		}
	}
	if msg := sess.Close(); msg != "" {
		u.Violation("session-close", msg, nil)
	}
}
