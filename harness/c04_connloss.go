//go:build verif

package sftp

// C04 — Connection loss fails every call and hangs none.
// Fault enumeration over the byte position at which the server->client stream
// ends (EOF or error) and over the client->server write call that fails, for a
// set of scenarios with single calls and multi-chunk transfers in flight.

import (
	"bytes"
	"context"
	"errors"
	"fmt"
	"io"
	"os"
	"runtime"
	"strings"
	"sync"
	"sync/atomic"
	"syscall"
	"testing"
	"time"
)

func TestVerifC04(t *testing.T) {
	vfMain(t, vfCheck{
		ID: "C04", Level: "fault_enumeration",
		Rule:        "14 scenarios (N concurrent single calls; one read call served by several short replies; concurrent and sequential ReadAt / WriteTo / WriteAt / ReadFrom mid-transfer; callers that keep issuing requests; raw dispatchRequest ledger) x 11 fault kinds {server->client stream EOF at byte n, the stream ending right behind a reply while the caller has not started to wait yet, error at byte n (a transport error, and io.ErrClosedPipe), k-th client->server Write call fails with the connection reset, k-th Write fails one-sided, also on a transport whose Close leaves the reply stream open, k-th Write delivered but reported failed after the reply arrived}; quick: every reply-frame boundary +-1 and a seeded 12% of the interior offsets, thorough: every offset 0..T (streams longer than 2500 bytes: every offset of the first 1200 bytes and a seeded stride after) and every write index. A class is (scenario, fault kind, position bucket); non-trivial when calls were in flight at the moment of the fault.",
		Assumptions: []string{"'bounded time' is decided as 'no stuck state' (every goroutine parked with nothing able to wake it), not as a latency bound", "the peer is scripted, so which replies were completely delivered before byte n is known exactly", "race detector on"},
		Units:       func(tier vfTier, seed uint64) int { return 14 * 11 },
		Shards: func(tier vfTier) int {
			// 15: coprime with the 14 scenarios, so that the units of one (slow) scenario do not all land in one child
			return 15
		},
		Floors: map[string]int64{"fault_runs": 1200, "runs_with_calls_in_flight": 400, "ledger_channels_checked": 2000, "scenarios": 14},
		Run:    c04Run,
	})
}

type c04Result struct {
	name   string
	path   string // unique path for single-request calls ("" = composite)
	err    error
	good   bool // value matched the model (only meaningful if err == nil)
	detail string
	after  bool // issued after the loss was observed
}

type c04Scenario struct {
	name string
	// short: the peer answers READs with short DATA replies (legal), so that ONE read call is served by several requests
	short bool
	opts  []ClientOption
	// run starts the callers and returns their results when all have returned.
	run func(c *Client, lost *atomic.Bool) []c04Result
}

func c04Stat(c *Client, n uint64, lost *atomic.Bool) c04Result {
	after := lost.Load()
	p := fmt.Sprintf("/s/%d", n)
	fi, err := c.Stat(p)
	r := c04Result{name: "Stat", path: p, err: err, after: after}
	if err == nil {
		r.good = uint64(fi.Size()) == vfModelSize(n) && fi.ModTime().Unix() == int64(uint32(n+7))
		r.detail = fmt.Sprintf("size %d", fi.Size())
	}
	return r
}

func c04Scenarios() []c04Scenario {
	par := func(n int, fn func(g int) []c04Result) []c04Result {
		var mu sync.Mutex
		var out []c04Result
		var wg sync.WaitGroup
		for g := 0; g < n; g++ {
			wg.Add(1)
			go func(g int) {
				defer wg.Done()
				r := fn(g)
				mu.Lock()
				out = append(out, r...)
				mu.Unlock()
			}(g)
		}
		wg.Wait()
		return out
	}
	transfer := func(name string, fn func(f *File) (int64, error, bool)) func(c *Client, lost *atomic.Bool) []c04Result {
		return func(c *Client, lost *atomic.Bool) []c04Result {
			f, err := c.OpenFile("/f/4321", os.O_RDWR)
			if err != nil {
				return []c04Result{{name: "Open", err: err}}
			}
			n, err, good := fn(f)
			out := []c04Result{{name: name, err: err, good: good, detail: fmt.Sprintf("count %d", n)}}
			// an end-relative Seek asks the server for the size: after a loss it cannot know it
			pos, serr := f.Seek(0, io.SeekEnd)
			out = append(out, c04Result{name: "Seek-to-end", err: serr, good: pos == int64(vfModelSize(4321)), detail: fmt.Sprintf("position %d", pos)})
			out = append(out, c04Result{name: "Close", err: f.Close(), good: true})
			return out
		}
	}
	size := int(vfModelSize(4321))
	readAt := func(f *File) (int64, error, bool) {
		buf := make([]byte, size)
		n, err := f.ReadAt(buf, 0)
		return int64(n), err, n == size && bytes.Equal(buf, vfPattern(4321, 0, size))
	}
	writeTo := func(f *File) (int64, error, bool) {
		var b bytes.Buffer
		n, err := f.WriteTo(&b)
		return n, err, n == int64(size) && bytes.Equal(b.Bytes(), vfPattern(4321, 0, size))
	}
	writeAt := func(f *File) (int64, error, bool) {
		data := vfPattern(4321+1000, 0, 700)
		n, err := f.WriteAt(data, 0)
		return int64(n), err, n == 700
	}
	readFrom := func(f *File) (int64, error, bool) {
		data := vfPattern(4321+1000, 0, 700)
		n, err := f.ReadFrom(bytes.NewReader(data))
		return n, err, n == 700
	}
	small := []ClientOption{MaxPacketUnchecked(64), MaxConcurrentRequestsPerFile(4)}
	seq := append([]ClientOption{UseConcurrentReads(false), UseConcurrentWrites(false)}, small...)
	con := append([]ClientOption{UseConcurrentReads(true), UseConcurrentWrites(true)}, small...)
	return []c04Scenario{
		{"single-calls-x8", false, nil, func(c *Client, lost *atomic.Bool) []c04Result {
			return par(8, func(g int) []c04Result { return []c04Result{c04Stat(c, uint64(g)*1000+1, lost)} })
		}},
		{"loopers-x4", false, nil, func(c *Client, lost *atomic.Bool) []c04Result {
			return par(4, func(g int) []c04Result {
				var out []c04Result
				for i := 0; i < 12; i++ {
					out = append(out, c04Stat(c, uint64(g)*1000+uint64(i)*17+3, lost))
					if i%3 == 1 {
						// the working directory is asked of the server every time, also after it was answered before
						after := lost.Load()
						wd, err := c.Getwd()
						out = append(out, c04Result{name: "Getwd", err: err, good: wd != "", after: after, detail: wd})
					}
				}
				return out
			})
		}},
		{"abandoned-listing-then-calls", false, nil, func(c *Client, lost *atomic.Bool) []c04Result {
			// a listing whose caller gave up (context cancelled) while its request is still owed an answer that never
			// comes; the session goes on with ordinary calls and is then lost
			ctx, cancel := context.WithCancel(context.Background())
			done := make(chan error, 1)
			go func() { _, err := c.ReadDirContext(ctx, "/hold/listing"); done <- err }()
			for i := 0; i < 400; i++ {
				runtime.Gosched()
			}
			cancel()
			aerr := <-done
			ar := c04Result{name: "ReadDirContext-abandoned", good: aerr != nil, detail: fmt.Sprint(aerr)}
			if aerr != nil && !errors.Is(aerr, context.Canceled) {
				ar.err = aerr // (lost before the cancellation was noticed: an error like any other)
			}
			out := []c04Result{ar}
			for i := 0; i < 10; i++ {
				out = append(out, c04Stat(c, uint64(i)*31+9000, lost))
			}
			return out
		}},
		{"ReadAt-conc", false, con, transfer("ReadAt", readAt)},
		{"ReadAt-seq", false, seq, transfer("ReadAt", readAt)},
		{"WriteTo-conc", false, con, transfer("WriteTo", writeTo)},
		{"WriteTo-seq", false, seq, transfer("WriteTo", writeTo)},
		{"WriteAt-conc", false, con, transfer("WriteAt", writeAt)},
		{"ReadFrom-conc", false, con, transfer("ReadFrom", readFrom)},
		{"ReadFrom-conc-endless-source", false, con, func(c *Client, lost *atomic.Bool) []c04Result {
			// the source is a stream: 700 bytes and the end while the connection is up, but once the connection is
			// lost it goes on delivering for as long as it is asked. A transfer that fails returns; it does not
			// drain its source first (bounded in logical steps: 200 further reads).
			f, err := c.OpenFile("/f/4321", os.O_RDWR)
			if err != nil {
				return []c04Result{{name: "Open", err: err}}
			}
			src := &c04Endless{lost: lost, limit: 700}
			n, err := f.ReadFrom(src)
			out := []c04Result{{name: "ReadFrom", err: err, good: n == 700, detail: fmt.Sprintf("count %d", n)}}
			out = append(out, c04Result{name: "ReadFrom-source", good: !src.drained.Load(), detail: fmt.Sprintf("the source was read %d more times after the connection was lost", src.after.Load())})
			out = append(out, c04Result{name: "Close", err: f.Close(), good: true})
			return out
		}},
		{"ReadFrom-seq", false, seq, transfer("ReadFrom", readFrom)},
		{"shutdown-race-many-inflight", false, nil, func(c *Client, lost *atomic.Bool) []c04Result {
			// thousands of requests are outstanding (the peer never answers /hold/ paths), so notifying
			// them takes the receiver a while; meanwhile other goroutines keep starting calls
			const nHeld = 3000
			held := make([]chan result, nHeld)
			for i := range held {
				held[i] = make(chan result, 4)
				c.clientConn.dispatchRequest(held[i], &sshFxpStatPacket{ID: c.nextID(), Path: fmt.Sprintf("/hold/%d", i)})
			}
			out := par(8, func(g int) []c04Result {
				var out []c04Result
				for i := 0; i < 40; i++ {
					out = append(out, c04Stat(c, uint64(g)*1000+uint64(i)*3+5, lost))
				}
				return out
			})
			c04Held = held // judged after Close (by then the receiver has finished notifying)
			return out
		}},
		{"ReadAt-one-call-short-replies", true, []ClientOption{MaxPacketUnchecked(4000)}, transfer("ReadAt-short", func(f *File) (int64, error, bool) {
			// one chunk for the client; the peer hands it out in short pieces: the bytes of the pieces that
			// arrived completely belong to the caller even if the connection is lost before the last one
			buf := bytes.Repeat([]byte{0xEE}, 900)
			n, err := f.ReadAt(buf, 0)
			return int64(n), err, n >= 0 && n <= 900 && bytes.Equal(buf[:n], vfPattern(4321, 0, n)) && (err != nil || n == 900)
		})},
		{"mixed", false, con, func(c *Client, lost *atomic.Bool) []c04Result {
			return par(4, func(g int) []c04Result {
				switch g {
				case 0:
					return transfer("ReadAt", readAt)(c, lost)
				case 1:
					return []c04Result{c04Stat(c, 77, lost), c04Stat(c, 78, lost), c04Stat(c, 79, lost)}
				case 2:
					ents, err := c.ReadDir("/dir")
					// a listing cut short by the fault must come with an error
					return []c04Result{{name: "ReadDir", err: err, good: len(ents) == 3, detail: fmt.Sprintf("%d of 3 entries", len(ents))}}
				default:
					err := c.Remove("/m/4")
					return []c04Result{{name: "Remove", err: err, good: true}}
				}
			})
		}},
	}
}

// c04Held: result channels of the never-answered requests of the shutdown-race scenario of the current run.
var c04Held []chan result

type c04Endless struct {
	lost    *atomic.Bool
	limit   int
	pos     int
	after   atomic.Int32
	drained atomic.Bool
}

// Len: "unknown" — the client then takes the concurrent path
func (e *c04Endless) Len() int { return -1 }

func (e *c04Endless) Read(p []byte) (int, error) {
	n := len(p)
	if !e.lost.Load() {
		if e.pos >= e.limit {
			return 0, io.EOF
		}
		n = min(n, e.limit-e.pos)
	} else if e.after.Add(1) > 200 {
		e.drained.Store(true)
		return 0, io.EOF
	}
	copy(p, vfPattern(4321+1000, int64(e.pos), n))
	e.pos += n
	return n, nil
}

type c04Fault struct {
	kind string // s2c-eof, s2c-error, c2s-reset, c2s-writefail
	pos  int64
}

type c04Frames struct {
	mu   sync.Mutex
	ends []int64           // end offset of each reply frame in the s2c stream
	ids  []uint32          // id of each reply frame
	dlen []int             // payload bytes of each reply frame if it is a DATA reply (else 0)
	req  map[uint32]string // request id -> path (single-path requests)
	fr   vfFramer
	off  int64
	cfr  vfFramer
}

// c04RunOnce runs the scenario with an optional fault; returns observations.
type c04Obs struct {
	results         []c04Result
	frames          *c04Frames
	T               int64 // bytes written server->client
	W               int   // write calls client->server
	stuck           string
	closeStuck      string
	waitStuck       string
	leaks           []string
	ledger          []int // results found in each harness-owned channel
	ledgerLate      []int
	inflightAtFault int
	handshake       int64
	fired           bool
	cutPos          int64 // absolute offset in the reply stream at which a fault kind that chooses it itself cut the stream
}

func c04RunOnce(u *vfUnit, sc c04Scenario, fault *c04Fault, hookSeed uint64) c04Obs {
	var obs c04Obs
	model := &vfModel{handles: map[string]uint64{}, writes: map[string][]byte{}, inflight: map[uint32]bool{}, noWriteFail: true, dirEntries: 3}
	if sc.short {
		model.short = vfNewRand(hookSeed ^ 0x5bd1e995)
	}
	fr := &c04Frames{req: map[uint32]string{}}
	obs.frames = fr
	peer := &vfPeer{Handler: func(req vfPkt, raw []byte) []byte {
		if strings.HasPrefix(req.Path, "/hold/") {
			return nil // never answered
		}
		return model.handler(req, raw)
	}}
	base := vfGoBaseline()
	hooks := vfInstallHooks(vfHookCfg{Seed: hookSeed, NoLog: true, MaxSleepUs: 120, DelayPct: map[int]int{vhCliBeforeBroadcast: 60, vhCliAfterRegister: 25, vhCliBeforeDeliver: 10}})
	defer hooks.Uninstall()
	c, _, ctl, ce, err := vfPeerClient(peer, vfPipeOpts{}, sc.opts...)
	if err != nil {
		obs.stuck = "connect failed: " + err.Error()
		return obs
	}
	handshake := ctl.Written(vfS2C)
	obs.handshake = handshake
	handshakeW := ctl.Writes(vfC2S)
	var fired atomic.Bool
	fr.off = handshake
	ctl.Tap(vfS2C, func(p []byte) {
		fr.mu.Lock()
		defer fr.mu.Unlock()
		for _, b := range fr.fr.Feed(p) {
			fr.off += int64(4 + len(b))
			fr.ends = append(fr.ends, fr.off)
			if len(b) >= 5 {
				fr.ids = append(fr.ids, uint32(b[1])<<24|uint32(b[2])<<16|uint32(b[3])<<8|uint32(b[4]))
			} else {
				fr.ids = append(fr.ids, 0)
			}
			dl := 0
			if len(b) >= 9 && b[0] == rfData {
				dl = int(uint32(b[5])<<24 | uint32(b[6])<<16 | uint32(b[7])<<8 | uint32(b[8]))
			}
			fr.dlen = append(fr.dlen, dl)
		}
	})
	ctl.Tap(vfC2S, func(p []byte) {
		fr.mu.Lock()
		defer fr.mu.Unlock()
		for _, b := range fr.cfr.Feed(p) {
			if q, err := vfParse(b, false); err == nil && q.Path != "" {
				fr.req[q.ID] = q.Path
			}
		}
	})
	var lost atomic.Bool
	var cutAt atomic.Int64
	if fault != nil {
		onCut := func() { lost.Store(true); fired.Store(true) }
		// the value the failing transport reports: drawn from the pool by the fault position (a failure is a
		// failure whatever its value, including interrupted / temporary / timeout / end-of-file values)
		errVfCut := vfFaultErr(int(fault.pos))
		switch fault.kind {
		case "s2c-eof":
			ctl.CutAfter(vfS2C, handshake+fault.pos, nil, onCut)
		case "s2c-error":
			ctl.CutAfter(vfS2C, handshake+fault.pos, errVfCut, onCut)
		case "s2c-closed-pipe":
			// the read fails the way an io.Pipe / net.Pipe does when it is closed on the reader's side
			ctl.CutAfter(vfS2C, handshake+fault.pos, io.ErrClosedPipe, onCut)
		case "s2c-eof-writer-survives":
			// the reply stream ends, but the transport's write half keeps accepting writes even after Close
			ce.NoClose = true
			ctl.CutAfter(vfS2C, handshake+fault.pos, nil, onCut)
		case "c2s-reset-ioEOF", "c2s-writefail-ioEOF":
			// like an ssh channel: a write on a closed channel fails with io.EOF
			k := fault.kind
			ctl.FailWrite(vfC2S, int(fault.pos), io.EOF, func() {
				lost.Store(true)
				fired.Store(true)
				if k == "c2s-reset-ioEOF" {
					ctl.CutAfter(vfS2C, 0, errVfCut, nil)
				}
			})
		case "c2s-reset":
			ctl.FailWrite(vfC2S, int(fault.pos), errVfCut, func() {
				lost.Store(true)
				fired.Store(true)
				// the whole connection is gone: the client's reader fails as well
				ctl.CutAfter(vfS2C, 0, errVfCut, nil)
			})
		case "c2s-writefail":
			ctl.FailWrite(vfC2S, int(fault.pos), errVfCut, onCut)
		case "c2s-write-late-error":
			// the k-th write reaches the peer completely; the transport reports it as failed only after the peer's
			// reply has come in (bounded wait in logical steps: a reply may legitimately never come)
			seen := ctl.Delivered(vfS2C)
			ctl.LateFailWrite(vfC2S, int(fault.pos), errVfCut, func() {
				for spin := 0; spin < 20000 && ctl.Delivered(vfS2C) == seen; spin++ {
					runtime.Gosched()
				}
				for spin := 0; spin < 200; spin++ {
					runtime.Gosched() // let the receiver hand the reply over
				}
				lost.Store(true)
				fired.Store(true)
			})
		case "s2c-eof-before-the-caller-waits":
			// the k-th request is written and answered, and the reply stream ends right behind the answer, all before
			// the transport's Write returns to the caller: when the caller starts to wait, its reply is there and the
			// connection is gone. A reply that was received completely belongs to its caller.
			ctl.LateFailWrite(vfC2S, int(fault.pos), nil, func() {
				// (the request is with the peer now) wait until the reply stream has grown and is quiet again: the
				// answer to this request, and to whatever else was outstanding, has been received
				start := ctl.Delivered(vfS2C)
				last, stable := start, 0
				for spin := 0; spin < 40000 && !(stable > 400 && last > start); spin++ {
					runtime.Gosched()
					if d := ctl.Delivered(vfS2C); d != last {
						last, stable = d, 0
					} else {
						stable++
					}
				}
				cutAt.Store(ctl.CutNow(vfS2C, nil))
				for spin := 0; spin < 20000; spin++ {
					select {
					case <-c.clientConn.closed:
						spin = 1 << 30
					default:
						runtime.Gosched()
					}
				}
				lost.Store(true)
				fired.Store(true)
			})
		case "c2s-writefail-reader-survives":
			// two independent one-way streams: the request stream fails, and closing the transport afterwards does
			// not end the reply stream (the peer does not hang up either until the very end)
			ce.keepReadOnClose = true
			ctl.FailWrite(vfC2S, int(fault.pos), errVfCut, onCut)
		}
	}
	// ledger: requests issued through the package's own dispatch entry with harness-owned channels
	const nLedger = 6
	chans := make([]chan result, nLedger)
	for i := range chans {
		chans[i] = make(chan result, 4)
	}
	done := vfGo(func() {
		var wg sync.WaitGroup
		wg.Add(1)
		go func() {
			defer wg.Done()
			for i := 0; i < nLedger; i++ {
				c.clientConn.dispatchRequest(chans[i], &sshFxpStatPacket{ID: c.nextID(), Path: fmt.Sprintf("/s/%d", 900000+i)})
			}
		}()
		obs.results = sc.run(c, &lost)
		wg.Wait()
	})
	if w, dump := vfAwait(done, 120*time.Second); w != vfDone {
		obs.stuck = fmt.Sprintf("%v\n%s", w, vfTrim(dump, 3500))
		ce.ForceClose()
		peer.Stop()
		return obs
	}
	obs.T = ctl.Written(vfS2C) - handshake
	obs.W = ctl.Writes(vfC2S) - handshakeW
	// calls started after the loss
	obs.fired = fired.Load()
	obs.cutPos = cutAt.Load()
	if fault != nil && !obs.fired && strings.HasPrefix(fault.kind, "s2c") {
		// the stream was shorter than in the dry run and the cut position was never reached: the cut
		// takes effect now (the client reader is parked at the end of the stream)
		ctl.CutAfter(vfS2C, 0, errVfCut, nil)
		obs.fired = true
	}
	if fault != nil && obs.fired {
		lost.Store(true)
		late := make([]chan result, 3)
		ldone := vfGo(func() {
			for i := 0; i < 3; i++ {
				r := c04Stat(c, uint64(5000+i), &lost)
				r.after = true
				obs.results = append(obs.results, r)
			}
			for i := range late {
				late[i] = make(chan result, 4)
				c.clientConn.dispatchRequest(late[i], &sshFxpStatPacket{ID: c.nextID(), Path: "/s/1"})
			}
		})
		if w, dump := vfAwait(ldone, 120*time.Second); w != vfDone {
			obs.stuck = fmt.Sprintf("a call started after the connection loss does not return (%v)\n%s", w, vfTrim(dump, 3000))
			ce.ForceClose()
			peer.Stop()
			return obs
		}
		if fault.kind != "c2s-writefail" && fault.kind != "c2s-writefail-ioEOF" && fault.kind != "c2s-writefail-reader-survives" && fault.kind != "c2s-write-late-error" {
			// (with a one-sided write failure the read side of the transport is still alive:
			// Wait legitimately blocks until Close)
			wdone := vfGo(func() { c.Wait() })
			if w, dump := vfAwait(wdone, 120*time.Second); w != vfDone {
				obs.waitStuck = fmt.Sprintf("%v\n%s", w, vfTrim(dump, 2500))
			}
		}
		for _, ch := range late {
			obs.ledgerLate = append(obs.ledgerLate, len(ch))
		}
	}
	cdone := vfGo(func() { c.Close() })
	peerStopped := false
	if fault == nil || fault.kind == "c2s-writefail-reader-survives" {
		// clean shutdown (or a reply stream that only the peer can end): the peer goes away first
		peer.Stop()
		peerStopped = true
	}
	if w, dump := vfAwait(cdone, 120*time.Second); w != vfDone {
		obs.closeStuck = fmt.Sprintf("%v\n%s", w, vfTrim(dump, 2500))
		ce.ForceClose()
	}
	if !peerStopped {
		peer.Stop()
	}
	ce.ForceClose()
	for _, ch := range chans {
		obs.ledger = append(obs.ledger, len(ch))
	}
	for _, ch := range c04Held {
		// after Close every request that never got a reply must have been notified exactly once
		obs.ledger = append(obs.ledger, len(ch))
	}
	c04Held = nil
	obs.leaks = base.Leaks()
	return obs
}

// vfC04FailClose is a transport whose Close does its work and reports an error all the same (a pipe to a process that
// is already gone, a second close of a connection).
type vfC04FailClose struct {
	*vfEnd
	err error
}

func (w vfC04FailClose) Close() error { w.vfEnd.Close(); return w.err }

// vfC04WriterCloseFails: Close on a client whose writer's Close reports an error, while the reply stream stays open until
// the harness ends it. Whatever the writer's Close says, Close returns only once the receiver is gone: if it returns
// while the reply stream is still open, the receiver (which nothing can end) is still there and is found as a survivor.
func vfC04WriterCloseFails(u *vfUnit) {
	for i, werr := range []error{errors.New("close of the request stream failed"), io.ErrClosedPipe, os.ErrClosed, syscall.EPIPE, io.EOF} {
		label := fmt.Sprintf("writer-Close-fails(%v)", werr)
		base := vfGoBaseline()
		ce, se := vfPipe(vfPipeOpts{ClientKeepRead: true})
		hs := vfGo(func() {
			// the peer answers the handshake and then stays silent, its sending direction open
			var fr vfFramer
			buf := make([]byte, 64)
			for {
				n, err := se.Read(buf)
				if n > 0 && len(fr.Feed(buf[:n])) > 0 {
					se.Write(vfPkt{Type: rfVersion, Version: 3}.Frame())
					return
				}
				if err != nil {
					return
				}
			}
		})
		c, err := NewClientPipe(ce, vfC04FailClose{ce, werr})
		if err != nil {
			u.Inconclusive("%s: connect: %v", label, err)
			se.Close()
			ce.ForceClose()
			return
		}
		<-hs
		if i%2 == 1 {
			c.Getwd() // (unanswered calls are not part of this scenario: Getwd is answered locally or fails; either is fine)
		}
		var cerr error
		cdone := vfGo(func() { cerr = c.Close() })
		w, dump := vfAwait(cdone, 60*time.Second)
		u.Eval("close-with-failing-writer-close/" + fmt.Sprint(werr))
		u.Count("closes_with_failing_writer_close", 1)
		switch w {
		case vfDone:
			// Close came back although the reply stream is open: is the receiver gone?
			if leaks := base.Leaks(); len(leaks) > 0 {
				u.Violation("close-returns-before-receiver-gone", fmt.Sprintf("%s: Close returned %v while the reply stream was still open; %d package goroutine(s) still there:\n%s", label, cerr, len(leaks), vfTrim(strings.Join(leaks, "\n\n"), 2000)), map[string]any{"writer_close_error": fmt.Sprint(werr)})
			}
			se.Close()
			ce.ForceClose()
		case vfStuck:
			// Close waits for the receiver, which waits for the reply stream: end it
			_ = dump
			se.Close()
			if w2, d2 := vfAwait(cdone, 120*time.Second); w2 != vfDone {
				if w2 == vfStuck {
					u.Violation("close-hangs:writer-close-fails", fmt.Sprintf("%s: Close does not return after the reply stream ended\n%s", label, vfTrim(d2, 2500)), nil)
				} else {
					u.Inconclusive("%s: wall-clock cap", label)
				}
				ce.ForceClose()
				return
			}
			ce.ForceClose()
			if leaks := base.Leaks(); len(leaks) > 0 {
				u.Violation("goroutine-leak:writer-close-fails", fmt.Sprintf("%s: %d package goroutine(s) survive Close:\n%s", label, len(leaks), vfTrim(strings.Join(leaks, "\n\n"), 2000)), nil)
			}
		default:
			u.Inconclusive("%s: wall-clock cap", label)
			se.Close()
			ce.ForceClose()
			return
		}
	}
}

func c04Run(u *vfUnit) {
	r := u.Rng
	if u.Index%31 == 7 {
		vfC04WriterCloseFails(u)
	}
	scs := c04Scenarios()
	sc := scs[u.Index%len(scs)]
	kind := []string{"s2c-eof", "s2c-error", "c2s-reset", "c2s-writefail", "c2s-reset-ioEOF", "c2s-writefail-ioEOF", "s2c-eof-writer-survives", "s2c-closed-pipe", "c2s-writefail-reader-survives", "c2s-write-late-error", "s2c-eof-before-the-caller-waits"}[(u.Index/len(scs))%11]
	u.SetAdd("scenarios", sc.name)
	dry := c04RunOnce(u, sc, nil, r.Uint64())
	label0 := sc.name + "/no-fault"
	if dry.stuck != "" || dry.closeStuck != "" {
		u.Violation("no-fault-run:"+sc.name, fmt.Sprintf("%s: stuck=%q closeStuck=%q", label0, vfTrim(dry.stuck, 800), vfTrim(dry.closeStuck, 800)), nil)
		return
	}
	for _, res := range dry.results {
		if res.err != nil && !(res.name == "Remove") || (res.err == nil && !res.good) {
			u.Violation("no-fault-run-result:"+sc.name, fmt.Sprintf("%s: %s returned err=%v good=%v %s", label0, res.name, res.err, res.good, res.detail), nil)
		}
	}
	for i, n := range dry.ledger {
		if n != 1 {
			u.Violation("ledger-no-fault", fmt.Sprintf("%s: dispatchRequest channel %d holds %d results", label0, i, n), nil)
		}
	}
	// fault positions
	var positions []int64
	if strings.HasPrefix(kind, "s2c") && kind != "s2c-eof-before-the-caller-waits" {
		T := dry.T
		dry.frames.mu.Lock()
		bounds := map[int64]bool{0: true, T: true}
		for _, e := range dry.frames.ends {
			rel := e - (dry.frames.ends[0] - 0) // placeholder, recomputed below
			_ = rel
		}
		dry.frames.mu.Unlock()
		for n := int64(0); n <= T; n++ {
			positions = append(positions, n)
		}
		if u.Tier == vfQuick {
			var sel []int64
			// frame boundaries of the dry run (relative to the end of the handshake) +-1, plus a seeded share of the interior
			dry.frames.mu.Lock()
			first := int64(0)
			if len(dry.frames.ends) > 0 {
				first = dry.frames.ends[0]
			}
			_ = first
			for _, e := range dry.frames.ends {
				b := e - (dry.frames.off - T)
				for _, d := range []int64{-1, 0, 1} {
					if b+d >= 0 && b+d <= T {
						bounds[b+d] = true
					}
				}
			}
			dry.frames.mu.Unlock()
			for _, n := range positions {
				if bounds[n] || r.Intn(100) < 12 {
					sel = append(sel, n)
				}
			}
			if len(sel) > 120 {
				// keep it bounded: a seeded sample that keeps the first and last
				var s2 []int64
				for i, n := range sel {
					if i < 10 || i > len(sel)-10 || r.Intn(len(sel)) < 100 {
						s2 = append(s2, n)
					}
				}
				sel = s2
			}
			positions = sel
		}
	} else {
		for k := 1; k <= dry.W; k++ {
			positions = append(positions, int64(k))
		}
		if u.Tier == vfQuick && len(positions) > 60 {
			var sel []int64
			for i, k := range positions {
				if i < 12 || i > len(positions)-6 || r.Intn(len(positions)) < 40 {
					sel = append(sel, k)
				}
			}
			positions = sel
		}
	}
	if u.Tier == vfThorough && len(positions) > 2500 {
		// very long streams: every offset of the first 1200 bytes, then a seeded 1-in-k stride (boundaries were kept above only in quick)
		var sel []int64
		k := len(positions)/1300 + 1
		for i, n := range positions {
			if i < 1200 || i >= len(positions)-50 || r.Intn(k) == 0 {
				sel = append(sel, n)
			}
		}
		positions = sel
	}
	for pi, pos := range positions {
		fault := &c04Fault{kind: kind, pos: pos}
		label := fmt.Sprintf("%s/%s@%d", sc.name, kind, pos)
		if !u.Case(pi, sc.name+":"+kind, "%s", label) {
			continue
		}
		bucket := "mid"
		if pi == 0 {
			bucket = "start"
		} else if pi == len(positions)-1 {
			bucket = "end"
		}
		u.Eval(fmt.Sprintf("%s/%s/%s", sc.name, kind, bucket))
		u.Count("fault_runs", 1)
		obs := c04RunOnce(u, sc, fault, r.Uint64())
		w := map[string]any{"scenario": sc.name, "fault": kind, "position": pos, "unit": u.Index}
		opos := pos // the position in the reply stream behind which nothing was delivered
		if kind == "s2c-eof-before-the-caller-waits" {
			opos = obs.cutPos - obs.handshake
		}
		if !obs.fired && obs.stuck == "" {
			u.Count("faults_not_reached", 1)
			continue
		}
		if obs.stuck != "" {
			u.Violation("call-hangs:"+sc.name+":"+kind, fmt.Sprintf("%s: after the fault some call never returns: %s", label, obs.stuck), w)
			continue
		}
		if obs.waitStuck != "" {
			u.Violation("wait-hangs:"+sc.name+":"+kind, fmt.Sprintf("%s: Client.Wait does not return: %s", label, obs.waitStuck), w)
		}
		if obs.closeStuck != "" {
			u.Violation("close-hangs:"+sc.name+":"+kind, fmt.Sprintf("%s: Client.Close does not return: %s", label, obs.closeStuck), w)
			continue
		}
		if len(obs.leaks) > 0 {
			u.Violation("goroutine-leak:"+sc.name+":"+kind, fmt.Sprintf("%s: %d package goroutine(s) survive Close:\n%s", label, len(obs.leaks), vfTrim(strings.Join(obs.leaks, "\n\n"), 2500)), w)
		}
		// exactly-once ledger
		for i, n := range obs.ledger {
			u.Count("ledger_channels_checked", 1)
			if n != 1 {
				u.Violation(fmt.Sprintf("ledger-%d-notifications:%s", n, kind), fmt.Sprintf("%s: the caller waiting on dispatchRequest channel %d was notified %d times", label, i, n), w)
			}
		}
		for i, n := range obs.ledgerLate {
			u.Count("ledger_channels_checked", 1)
			if n != 1 {
				u.Violation(fmt.Sprintf("ledger-late-%d-notifications:%s", n, kind), fmt.Sprintf("%s: a request dispatched after the loss (channel %d) was notified %d times", label, i, n), w)
			}
		}
		// per-call verdicts
		inflight := 0
		obs.frames.mu.Lock()
		delivered := map[string]bool{} // path -> its reply was completely delivered before the cut
		if strings.HasPrefix(kind, "s2c") {
			hs := obs.handshake
			for i, e := range obs.frames.ends {
				if e-hs <= opos {
					if p, ok := obs.frames.req[obs.frames.ids[i]]; ok {
						delivered[p] = true
					}
				}
			}
		}
		obs.frames.mu.Unlock()
		for _, res := range obs.results {
			switch {
			case res.after:
				if res.err == nil {
					u.Violation("call-after-loss-succeeds:"+res.name, fmt.Sprintf("%s: %s started after the connection was lost returned nil error", label, res.name), w)
				}
			case res.path != "" && strings.HasPrefix(kind, "s2c"):
				if delivered[res.path] {
					if res.err != nil || !res.good {
						u.Violation("delivered-reply-lost:"+res.name, fmt.Sprintf("%s: the reply to %s(%s) had been received completely before the stream ended, but the call returned err=%v good=%v", label, res.name, res.path, res.err, res.good), w)
					}
				} else {
					inflight++
					if res.err == nil {
						u.Violation("undelivered-call-succeeds:"+res.name, fmt.Sprintf("%s: %s(%s) returned nil error although its reply was not completely delivered before the stream ended", label, res.name, res.path), w)
					}
				}
			case res.name == "ReadAt-short" && strings.HasPrefix(kind, "s2c"):
				// bytes of DATA replies that had arrived completely before the cut must be in the count
				obs.frames.mu.Lock()
				got := 0
				for i, e := range obs.frames.ends {
					if e-obs.handshake <= opos {
						got += obs.frames.dlen[i]
					}
				}
				obs.frames.mu.Unlock()
				var n int
				fmt.Sscanf(res.detail, "count %d", &n)
				if !res.good {
					u.Violation("partial-read-wrong-bytes:"+res.name, fmt.Sprintf("%s: ReadAt returned (%s, %v) with bytes that are not the file's", label, res.detail, res.err), w)
				} else if n < min(got, 900) {
					u.Violation("delivered-reply-lost:"+res.name, fmt.Sprintf("%s: DATA replies carrying %d bytes had been received completely before the stream ended, but ReadAt returned %s (err %v)", label, got, res.detail, res.err), w)
				}
				if res.err != nil {
					inflight++
				}
			default:
				// composite calls / transfers / write-side faults: must return; a nil error requires a correct result
				if res.err == nil && !res.good {
					u.Violation("nil-error-wrong-result:"+res.name, fmt.Sprintf("%s: %s returned nil error with a wrong result (%s)", label, res.name, res.detail), w)
				}
				if res.err != nil {
					inflight++
				}
			}
			if res.err != nil && errors.Is(res.err, io.EOF) && res.name != "ReadDir" && false {
				_ = res
			}
		}
		if inflight > 0 {
			u.Count("runs_with_calls_in_flight", 1)
		}
		u.Max("calls_failed_by_one_fault", int64(inflight))
		if pi == 0 {
			u.Sample(map[string]any{"scenario": sc.name, "fault": kind, "positions": len(positions), "stream_length": dry.T, "client_writes": dry.W})
		}
	}
}
