#!/bin/bash
# tools/seedcross.sh <seed-dir> <ID>... : runs other properties' quick checks against a scratch copy of /repo with the seeded change
SD=$1; shift
cd "$(dirname "$0")/.."
D=$(mktemp -d /tmp/vfcross-XXXXXX)/sftp; mkdir -p "$D"; trap 'rm -rf "$(dirname "$D")"' EXIT
git -C /repo archive HEAD | tar -x -C "$D"  # the committed tree, not the working tree (tools/seeded_all.sh may be patching that one)
( cd "$D" && patch -p1 -s < "$SD/patch.diff" ) || { echo "PATCH DOES NOT APPLY"; exit 3; }
for id in "$@"; do
  OUT=$(VERIF_REPO="$D" ./check "$id" --tier ${SEED_TIER:-quick} 2>&1); RC=$?
  git checkout -- evidence/$id.json 2>/dev/null
  echo "$(basename $(dirname $(dirname $SD)))/$(basename $SD) vs $id rc=$RC $(echo "$OUT" | grep -a 'key=' | head -2 | cut -c1-200 | tr '\n' ' ')"
done
