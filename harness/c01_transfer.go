//go:build verif

package sftp

// C01 — Transferred bytes are exactly the file's bytes.
// Real Client against real servers (os-backed, request server over the harness
// store and over the package's InMemHandler), through a reorder proxy that
// permutes chunk replies, with ground truth read directly from the backend.

import (
	"bytes"
	"fmt"
	"io"
	"os"
	"path/filepath"
	"sync"
	"sync/atomic"
	"testing"
	"time"
)

func TestVerifC01(t *testing.T) {
	vfMain(t, vfCheck{
		ID: "C01", Level: "exploration",
		Rule:        "per unit one configuration drawn so that the units cover packet size P in {1,2,3,7,64,1000,32768,65536,131072} x MaxConcurrentRequestsPerFile C in {1,2,3,64} x UseConcurrentReads x UseConcurrentWrites x UseFstat x backend {Server, RequestServer/store, RequestServer/InMemHandler} x allocator x {direct, reorder proxy K in 2..16}; per configuration ~45 transfers: API in {Write, WriteAt, ReadFrom (11 source kinds), ReadFromWithConcurrency (n in -1,0,1,2,C+1), Read loop, ReadAt, WriteTo (2 writer kinds)} with length and offset from the boundary set {0,1,kP-1,kP,kP+1 (k<=3),PC-1,PC,PC+1,2PC+5,random} and initial file sizes around them. A class is (API, P, C, options, length class, offset class); a transfer is non-trivial when it needs more than one packet.",
		Assumptions: []string{"client packet size <= server maximum payload (WithMaxTxPacket set to P when P > 32768)", "race detector on", "sizes capped (quick 300 KiB, thorough 6 MiB)"},
		Units: func(tier vfTier, seed uint64) int {
			if tier == vfThorough {
				return 864
			}
			return 36
		},
		Shards: func(tier vfTier) int {
			if tier == vfThorough {
				return 15
			}
			return 12
		},
		Floors: map[string]int64{"transfers": 1000, "multi_packet_transfers": 400, "transfers_with_reordered_replies": 100, "apis": 7, "source_kinds": 10},
		Run:    c01Run,
	})
}

type c01Cfg struct {
	backend      int // 0 os, 1 rs/store, 2 rs/inmem
	alloc        bool
	P, C         int
	cr, cw, fst  bool
	proxyK       int
	openFileImpl bool
	noSizes      bool // the store reports size 0 for every file
	staleSizes   bool // the store reports three fifths of every file's size (files that grew after their size was taken)
	eagerEOF     bool // the store's readers report io.EOF together with the last bytes (io.ReaderAt allows both forms)
}

func (c c01Cfg) String() string {
	s := fmt.Sprintf("%s/alloc=%v/P=%d/C=%d/cr=%v/cw=%v/fstat=%v/proxyK=%d", []string{"Server", "RS-store", "RS-inmem"}[c.backend], c.alloc, c.P, c.C, c.cr, c.cw, c.fst, c.proxyK)
	if c.noSizes {
		s += "/no-sizes"
	}
	if c.eagerEOF {
		s += "/eager-EOF"
	}
	if c.staleSizes {
		s += "/stale-sizes"
	}
	return s
}

type c01Env struct {
	cfg   c01Cfg
	dir   string
	store *vfStore
	inmem *root
	sess  *vfSession
	px    *vfProxy
}

func (e *c01Env) path(i int) string {
	if e.cfg.backend == 0 {
		return filepath.Join(e.dir, fmt.Sprintf("c%d", i))
	}
	return fmt.Sprintf("/c%d", i)
}

func (e *c01Env) put(p string, data []byte) {
	switch e.cfg.backend {
	case 0:
		os.WriteFile(p, data, 0o644)
	case 1:
		e.store.Put(p, data)
	case 2:
		e.inmem.mu.Lock()
		e.inmem.files[p] = &memFile{name: p, modtime: time.Unix(1500000000, 0), content: append([]byte(nil), data...)}
		e.inmem.mu.Unlock()
	}
}

func (e *c01Env) get(p string) []byte {
	switch e.cfg.backend {
	case 0:
		b, _ := os.ReadFile(p)
		return b
	case 1:
		b, _ := e.store.Get(p)
		return b
	default:
		e.inmem.mu.Lock()
		f := e.inmem.files[p]
		e.inmem.mu.Unlock()
		if f == nil {
			return nil
		}
		f.mu.Lock()
		defer f.mu.Unlock()
		return append([]byte(nil), f.content...)
	}
}

func c01Connect(u *vfUnit, cfg c01Cfg) (*c01Env, error) {
	e := &c01Env{cfg: cfg}
	sc := vfSrvCfg{Alloc: cfg.alloc}
	if cfg.P > 32768 {
		sc.MaxTx = uint32(cfg.P)
	}
	switch cfg.backend {
	case 0:
		sc.Kind = vfOS
		e.dir = filepath.Join(u.TempDir(), fmt.Sprintf("t%d", u.Rng.Intn(1<<30)))
		os.MkdirAll(e.dir, 0o755)
	case 1:
		sc.Kind = vfRS
		e.store = vfNewStore()
		// every third store-backed unit: a backend that does not report sizes (Stat/Fstat say 0): what is read must still be the content
		e.store.ReportSizeZero = cfg.noSizes
		e.store.EagerEOF = cfg.eagerEOF
		e.store.ReportSizeStale = cfg.staleSizes
		sc.H = e.store.Handlers(vfHandlerOpt{OpenFile: cfg.openFileImpl, CmdAll: true, ListAll: true})
	case 2:
		sc.Kind = vfRS
		sc.H = InMemHandler()
		e.inmem = sc.H.FileGet.(*root)
	}
	opts := []ClientOption{MaxPacketUnchecked(cfg.P), MaxConcurrentRequestsPerFile(cfg.C), UseConcurrentReads(cfg.cr), UseConcurrentWrites(cfg.cw), UseFstat(cfg.fst)}
	var err error
	if cfg.proxyK > 0 {
		e.sess, e.px, err = vfConnectProxied(sc, cfg.proxyK, u.Rng.Fork(), opts...)
		if err == nil && u.Index%3 == 1 {
			// a third of the proxied units: DATA replies carry one more byte behind the data string
			e.px.mu.Lock()
			e.px.TrailDATA = true
			e.px.mu.Unlock()
		}
	} else {
		e.sess, err = vfConnect(sc, vfPipeOpts{}, opts...)
	}
	return e, err
}

func c01Boundaries(r *vfRand, P, C, cap_ int) []int {
	set := []int{0, 1}
	for k := 1; k <= 3; k++ {
		set = append(set, k*P-1, k*P, k*P+1)
	}
	set = append(set, P*C-1, P*C, P*C+1, 2*P*C+5, r.Intn(4*P*C+2))
	var out []int
	for _, v := range set {
		if v >= 0 && v <= cap_ {
			out = append(out, v)
		}
	}
	return out
}

// reader kinds for ReadFrom
type c01Opaque struct{ r io.Reader }

func (o c01Opaque) Read(p []byte) (int, error) { return o.r.Read(p) }

type c01OneByte struct{ r io.Reader }

func (o c01OneByte) Read(p []byte) (int, error) {
	if len(p) > 1 {
		p = p[:1]
	}
	return o.r.Read(p)
}

type c01Lens struct {
	r io.Reader
	n int
}

func (o c01Lens) Read(p []byte) (int, error) { return o.r.Read(p) }
func (o c01Lens) Len() int                   { return o.n }

type c01Sizes struct {
	r io.Reader
	n int64
}

func (o c01Sizes) Read(p []byte) (int, error) { return o.r.Read(p) }
func (o c01Sizes) Size() int64                { return o.n }

// c01Stats: a source that offers Stat() like an *os.File, with a size that need not be what it delivers (a pipe,
// a device, a procfs file report 0 and still yield data)
type c01Stats struct {
	r io.Reader
	n int64
}

func (o c01Stats) Read(p []byte) (int, error) { return o.r.Read(p) }
func (o c01Stats) Stat() (os.FileInfo, error) { return c01StatInfo{o.n}, nil }

type c01StatInfo struct{ n int64 }

func (i c01StatInfo) Name() string       { return "source" }
func (i c01StatInfo) Size() int64        { return i.n }
func (i c01StatInfo) Mode() os.FileMode  { return os.ModeNamedPipe | 0o600 }
func (i c01StatInfo) ModTime() time.Time { return time.Unix(0, 0) }
func (i c01StatInfo) IsDir() bool        { return false }
func (i c01StatInfo) Sys() any           { return nil }

var c01Sources = []string{"bytes.Reader", "bytes.Buffer", "SectionReader", "os.File", "LimitedReader", "LimitedReader-short", "opaque", "onebyte", "Len=-1", "Len-small", "Len-big", "Size=-1", "Size-small", "Size-big", "Stat=0", "Stat-small", "Stat-big", "os.Pipe"}

// c01Source builds the reader and the number of bytes it will deliver.
func c01Source(u *vfUnit, kind string, data []byte) (io.Reader, int, func()) {
	switch kind {
	case "bytes.Reader":
		return bytes.NewReader(data), len(data), nil
	case "bytes.Buffer":
		return bytes.NewBuffer(append([]byte(nil), data...)), len(data), nil
	case "SectionReader":
		return io.NewSectionReader(bytes.NewReader(data), 0, int64(len(data))), len(data), nil
	case "os.File":
		p := filepath.Join(u.TempDir(), fmt.Sprintf("src%d", u.Rng.Intn(1<<30)))
		os.WriteFile(p, data, 0o600)
		f, err := os.Open(p)
		if err != nil {
			return bytes.NewReader(data), len(data), nil
		}
		return f, len(data), func() { f.Close(); os.Remove(p) }
	case "LimitedReader":
		return &io.LimitedReader{R: c01Opaque{bytes.NewReader(data)}, N: int64(len(data))}, len(data), nil
	case "LimitedReader-short":
		n := len(data) / 2
		return &io.LimitedReader{R: c01Opaque{bytes.NewReader(data)}, N: int64(n)}, n, nil
	case "opaque":
		return c01Opaque{bytes.NewReader(data)}, len(data), nil
	case "onebyte":
		return c01OneByte{bytes.NewReader(data)}, len(data), nil
	case "Len=-1":
		return c01Lens{bytes.NewReader(data), -1}, len(data), nil
	case "Len-small":
		return c01Lens{bytes.NewReader(data), len(data) / 3}, len(data), nil
	case "Len-big":
		return c01Lens{bytes.NewReader(data), len(data)*3 + 100000}, len(data), nil
	case "Stat=0":
		return c01Stats{bytes.NewReader(data), 0}, len(data), nil
	case "Stat-small":
		return c01Stats{bytes.NewReader(data), int64(len(data) / 3)}, len(data), nil
	case "Stat-big":
		return c01Stats{bytes.NewReader(data), int64(len(data))*3 + 100000}, len(data), nil
	case "os.Pipe":
		pr, pw, err := os.Pipe()
		if err != nil {
			return c01Opaque{bytes.NewReader(data)}, len(data), nil
		}
		go func() {
			pw.Write(data)
			pw.Close()
		}()
		return pr, len(data), func() { pr.Close() }
	case "Size=-1":
		return c01Sizes{bytes.NewReader(data), -1}, len(data), nil
	case "Size-small":
		return c01Sizes{bytes.NewReader(data), int64(len(data) / 3)}, len(data), nil
	default:
		return c01Sizes{bytes.NewReader(data), int64(len(data))*3 + 100000}, len(data), nil
	}
}

type c01ChunkWriter struct {
	buf    bytes.Buffer
	chunks int
}

func (w *c01ChunkWriter) Write(p []byte) (int, error) {
	w.chunks++
	return w.buf.Write(p)
}

func c01Class(v, P, C int) string {
	switch {
	case v == 0:
		return "0"
	case v < P:
		return "<P"
	case v == P:
		return "=P"
	case v <= P*C:
		return "<=PC"
	}
	return ">PC"
}

func c01Run(u *vfUnit) {
	r := u.Rng
	Ps := []int{1, 2, 3, 7, 64, 1000, 32768, 65536, 131072}
	Cs := []int{1, 2, 3, 64}
	i := u.Index
	// (the packet size cycles with period 9; the backend is shifted by one from one block of nine units to the
	// next, so that every backend meets every packet size)
	backend := ((i%9)/3 + i/9) % 3
	cfg := c01Cfg{
		P:            Ps[i%len(Ps)],
		C:            Cs[(i/len(Ps)+i)%len(Cs)],
		backend:      backend,
		alloc:        (i/2)%2 == 1,
		cr:           (i/5)%2 == 0,
		cw:           (i/7)%2 == 0,
		fst:          (i/11)%2 == 0,
		openFileImpl: (i/13)%2 == 0,
		noSizes:      backend == 1 && (i/9)%3 == 1,
		eagerEOF:     backend == 1 && i%2 == 0,
		staleSizes:   backend == 1 && (i/9)%3 == 2,
	}
	if i%10 < 7 {
		cfg.proxyK = 2 + r.Intn(15)
	}
	cap_ := 300 * 1024
	if u.Tier == vfThorough {
		cap_ = 6 << 20
	}
	if cfg.P >= 32768 && cfg.C == 64 && u.Tier == vfQuick {
		cfg.C = 3
	}
	e, err := c01Connect(u, cfg)
	if err != nil {
		u.Inconclusive("connect %s: %v", cfg, err)
		return
	}
	hooks := vfInstallHooks(vfHookCfg{Seed: r.Uint64(), NoLog: true, MaxSleepUs: 60, DelayPct: map[int]int{vhSrvWorker: 25, vhRsWorker: 25, vhCliBeforeDeliver: 10}})
	defer hooks.Uninstall()
	bounds := c01Boundaries(r, cfg.P, cfg.C, cap_)
	apis := []string{"Write", "WriteAt", "ReadFrom", "ReadFrom", "ReadFromWithConcurrency", "Read", "ReadAt", "ReadAt", "WriteTo", "WriteTo"}
	fileNo := 0
	for ci := 0; ci < 45; ci++ {
		api := apis[(ci+i)%len(apis)]
		L := bounds[r.Intn(len(bounds))]
		O := bounds[r.Intn(len(bounds))]
		if r.Intn(3) == 0 {
			O = 0
		}
		if O+L > cap_ {
			O = 0
		}
		// initial file size
		var F int
		switch r.Intn(5) {
		case 0:
			F = 0
		case 1:
			F = O
		case 2:
			F = O + L/2
		case 3:
			F = O + L
		default:
			F = O + L + cfg.P + 3
		}
		if F > cap_+cfg.P+3 {
			F = cap_
		}
		fileNo++
		p := e.path(fileNo)
		tag := uint64(fileNo)*131 + uint64(i)
		initial := vfPattern(tag, 0, F)
		e.put(p, initial)
		data := vfPattern(tag+7, int64(O), L)
		label := fmt.Sprintf("%s L=%d O=%d F=%d", api, L, O, F)
		w := map[string]any{"config": cfg.String(), "case": label, "unit": u.Index, "case_index": ci}
		viol := func(key, what string) {
			u.Violation(key+":"+api, fmt.Sprintf("%s | %s: %s", cfg, label, what), w)
		}
		before := vfProxyStats{}
		if e.px != nil {
			before = e.px.Stats()
		}
		isWrite := api == "Write" || api == "WriteAt" || api == "ReadFrom" || api == "ReadFromWithConcurrency"
		flags := os.O_RDWR
		if cfg.backend == 1 && !cfg.openFileImpl {
			// without OpenFileWriter the request server offers read-only or write-only handles
			if isWrite {
				flags = os.O_WRONLY
			} else {
				flags = os.O_RDONLY
			}
		}
		f, err := e.sess.C.OpenFile(p, flags)
		if err != nil {
			viol("open-failed", err.Error())
			continue
		}
		extra := ""
		done := vfGo(func() {
			switch api {
			case "Write", "WriteAt":
				var n int
				var err error
				if api == "Write" {
					if O > 0 {
						if _, err := f.Seek(int64(O), io.SeekStart); err != nil {
							viol("seek-failed", err.Error())
							return
						}
					}
					n, err = f.Write(data)
				} else {
					n, err = f.WriteAt(data, int64(O))
				}
				if err != nil || n != L {
					viol("write-result", fmt.Sprintf("returned (%d, %v), want (%d, nil)", n, err, L))
				}
			case "ReadFrom", "ReadFromWithConcurrency":
				kind := c01Sources[(ci/2+i)%len(c01Sources)]
				extra = kind
				u.SetAdd("source_kinds", kind)
				src, deliver, cleanup := c01Source(u, kind, data)
				if cleanup != nil {
					defer cleanup()
				}
				if O > 0 {
					if _, err := f.Seek(int64(O), io.SeekStart); err != nil {
						viol("seek-failed", err.Error())
						return
					}
				}
				var n int64
				var err error
				if api == "ReadFrom" {
					n, err = f.ReadFrom(src)
				} else {
					conc := []int{-1, 0, 1, 2, cfg.C + 1}[ci%5]
					extra += fmt.Sprintf("/n=%d", conc)
					n, err = f.ReadFromWithConcurrency(src, conc)
				}
				if err != nil || n != int64(deliver) {
					viol("readfrom-result", fmt.Sprintf("source %s: returned (%d, %v), want (%d, nil)", extra, n, err, deliver))
				}
				data = data[:deliver]
				// the transfer continues where this one ended: a following Write must land right behind it
				suffix := vfPattern(tag+13, int64(O+deliver), 1+ci%7)
				if n2, err := f.Write(suffix); err != nil || n2 != len(suffix) {
					viol("write-after-readfrom", fmt.Sprintf("Write after ReadFrom returned (%d, %v)", n2, err))
				}
				data = append(append([]byte(nil), data...), suffix...)
			case "ReadAt":
				buf := bytes.Repeat([]byte{0xEE}, L)
				n, err := f.ReadAt(buf, int64(O))
				want := 0
				if F > O {
					want = min(L, F-O)
				}
				var wantErr error
				if want < L {
					wantErr = io.EOF
				}
				if n != want || err != wantErr {
					viol("readat-result", fmt.Sprintf("returned (%d, %v), want (%d, %v)", n, err, want, wantErr))
				}
				if n <= len(buf) && want <= len(buf) && !bytes.Equal(buf[:min(n, want)], initial[min(O, F):min(O, F)+min(n, want)]) {
					viol("readat-content", fmt.Sprintf("bytes differ from the served file at buffer offset %d", vfFirstDiff(buf[:min(n, want)], initial[min(O, F):min(O, F)+min(n, want)])))
				}
				for k := max(n, 0); k < len(buf); k++ {
					if buf[k] != 0xEE {
						viol("readat-overrun", fmt.Sprintf("buffer byte %d beyond the returned count %d was modified", k, n))
						break
					}
				}
			case "Read":
				B := max(1, L)
				if O > 0 {
					f.Seek(int64(O), io.SeekStart)
				}
				var got []byte
				buf := make([]byte, B)
				for iter := 0; ; iter++ {
					for k := range buf {
						buf[k] = 0xEE
					}
					n, err := f.Read(buf)
					if n < 0 || n > B {
						viol("read-count", fmt.Sprintf("Read returned n=%d for a %d-byte buffer", n, B))
						return
					}
					got = append(got, buf[:n]...)
					if err == io.EOF {
						break
					}
					if err != nil {
						viol("read-error", err.Error())
						return
					}
					if n == 0 || iter > 4*F/B+50 {
						viol("read-no-progress", fmt.Sprintf("Read made no progress after %d calls (%d bytes so far)", iter, len(got)))
						return
					}
				}
				want := []byte{}
				if F > O {
					want = initial[O:]
				}
				if !bytes.Equal(got, want) {
					viol("read-content", fmt.Sprintf("Read loop (buffer %d) produced %d bytes, file[O:] has %d; first difference at %d", B, len(got), len(want), vfFirstDiff(got, want)))
				}
			case "WriteTo":
				if O > 0 {
					f.Seek(int64(O), io.SeekStart)
				}
				want := []byte{}
				if F > O {
					want = initial[O:]
				}
				var got []byte
				var n int64
				var err error
				if ci%2 == 0 {
					var b bytes.Buffer
					n, err = f.WriteTo(&b)
					got = b.Bytes()
					extra = "bytes.Buffer"
				} else {
					cw := &c01ChunkWriter{}
					n, err = f.WriteTo(cw)
					got = cw.buf.Bytes()
					extra = "chunk-writer"
				}
				if err != nil || n != int64(len(want)) {
					viol("writeto-result", fmt.Sprintf("returned (%d, %v), want (%d, nil)", n, err, len(want)))
				}
				if !bytes.Equal(got, want) {
					viol("writeto-content", fmt.Sprintf("writer received %d bytes, file[O:] has %d; first difference at %d", len(got), len(want), vfFirstDiff(got, want)))
				}
			}
		})
		if wv, dump := vfAwait(done, 180*time.Second); wv != vfDone {
			if wv == vfStuck {
				viol("transfer-hangs", "the call does not return and the process is quiescent\n"+vfTrim(dump, 2500))
			} else {
				u.Inconclusive("%s %s: wall-clock cap", cfg, label)
			}
			return
		}
		if err := f.Close(); err != nil {
			viol("close-failed", err.Error())
		}
		// ground truth
		got := e.get(p)
		want := initial
		if isWrite {
			want = append([]byte(nil), initial...)
			if len(data) > 0 {
				if O+len(data) > len(want) {
					want = append(want, make([]byte, O+len(data)-len(want))...)
				}
				copy(want[O:], data)
			}
		}
		if isWrite && len(data) == 0 && O > len(initial) && cfg.backend != 0 && len(got) == O && bytes.Equal(got[:len(initial)], initial) && len(bytes.Trim(got[len(initial):], "\x00")) == 0 {
			// a zero-length WriteAt beyond the end: whether the store zero-extends the file is the
			// backend's own semantics (InMemHandler does, a POSIX file does not); nothing was transferred
			want = got
		}
		if !bytes.Equal(got, want) {
			viol("served-content", fmt.Sprintf("served file has %d bytes, expected %d; first difference at offset %d (%s)", len(got), len(want), vfFirstDiff(got, want), extra))
		}
		// bookkeeping
		span := L
		if api == "Read" || api == "WriteTo" {
			span = max(0, F-O)
		}
		u.Eval(fmt.Sprintf("%s/P=%d/C=%d/cr=%v/cw=%v/%s/%s/%s", api, cfg.P, cfg.C, cfg.cr, cfg.cw, c01Class(span, cfg.P, cfg.C), c01Class(O, cfg.P, cfg.C), extra))
		u.Count("transfers", 1)
		u.SetAdd("apis", api)
		if span > cfg.P {
			u.Count("multi_packet_transfers", 1)
			u.Max("chunks_in_one_transfer", int64((span+cfg.P-1)/cfg.P))
		}
		if e.px != nil {
			after := e.px.Stats()
			if after.OutOfOrder > before.OutOfOrder {
				u.Count("transfers_with_reordered_replies", 1)
			}
			u.Max("proxy_max_held", int64(after.MaxHeld))
		}
		if ci == 0 {
			u.Sample(map[string]any{"config": cfg.String(), "case": label, "oracle": "byte equality with the backend's content + exact counts + sentinel-filled buffers"})
		}
		if e.cfg.backend == 0 {
			os.Remove(p)
		}
	}
	c01AfterShrink(u, e)
	c01StreamLike(u, e)
	c01SharedWrite(u, e)
	if msg := e.sess.Close(); msg != "" {
		u.Violation("session-close", cfg.String()+": "+msg, nil)
	}
}

// c01AfterShrink: a file that was longer before (then truncated through the handle, or re-created under its name)
// and is then written beyond its new end: the served file must hold exactly what was written since, with the gap
// reading as zeros, never what the file held in its earlier life.
func c01AfterShrink(u *vfUnit, e *c01Env) {
	c := e.sess.C
	for variant := 0; variant < 3; variant++ {
		p := e.path(9000 + variant)
		label := fmt.Sprintf("%s | after-shrink/%d", e.cfg, variant)
		old := vfPattern(7000+uint64(variant), 0, 6000)
		f, err := c.Create(p)
		if err != nil {
			u.Violation("open-failed", label+": "+err.Error(), nil)
			return
		}
		f.WriteAt(old, 0)
		keep := 0
		if variant == 0 {
			keep = 100
			if err := f.Truncate(int64(keep)); err != nil {
				f.Close()
				continue // a backend without truncate support
			}
		} else if variant == 1 {
			f.Close()
			if f, err = c.Create(p); err != nil { // O_TRUNC under the same name
				u.Violation("open-failed", label+": "+err.Error(), nil)
				return
			}
		} else {
			// the existing file re-opened for writing with O_TRUNC alone (no O_CREATE), as os.OpenFile(p, O_WRONLY|O_TRUNC)
			f.Close()
			flags := os.O_WRONLY | os.O_TRUNC
			if e.cfg.backend != 1 || e.cfg.openFileImpl {
				flags = []int{os.O_WRONLY | os.O_TRUNC, os.O_RDWR | os.O_TRUNC}[u.Index%2]
			}
			if f, err = c.OpenFile(p, flags); err != nil {
				u.Violation("open-failed", label+": "+err.Error(), nil)
				return
			}
		}
		tail := vfPattern(7100+uint64(variant), 3000, 500)
		n, werr := f.WriteAt(tail, 3000)
		f.Close()
		want := make([]byte, 3500)
		copy(want, old[:keep])
		copy(want[3000:], tail)
		got := e.get(p)
		u.Count("transfers", 1)
		u.Eval(fmt.Sprintf("after-shrink/%d/%d", e.cfg.backend, variant))
		if werr != nil || n != len(tail) || !bytes.Equal(got, want) {
			u.Violation("served-content:after-shrink", fmt.Sprintf("%s: WriteAt(500 bytes at 3000) = (%d, %v) on a file shrunk to %d bytes: the served file has %d bytes, expected %d; first difference at %d (the gap must read as zeros)", label, n, werr, keep, len(got), len(want), vfFirstDiff(got, want)), nil)
		}
		if e.cfg.backend == 0 {
			os.Remove(p)
		}
	}
}

// c01SharedWrite: several goroutines append records through one File with Write. Every call returns its full count,
// so every record must be in the served file exactly once and whole, at the intended offset of some order of the
// calls: the file is a permutation of the records, nothing else.
func c01SharedWrite(u *vfUnit, e *c01Env) {
	c := e.sess.C
	p := e.path(9100)
	label := fmt.Sprintf("%s | shared-Write", e.cfg)
	f, err := c.Create(p)
	if err != nil {
		u.Violation("open-failed", label+": "+err.Error(), nil)
		return
	}
	const nG, perG = 4, 5
	L := 64
	if u.Index%2 == 1 {
		L = e.cfg.P + 5 // a record that takes two packets
		if L > 70000 {
			L = 70000
		}
	}
	rec := func(g, k int) []byte {
		b := make([]byte, L)
		for i := range b {
			b[i] = byte(1 + g*perG + k)
		}
		return b
	}
	var wg sync.WaitGroup
	var bad atomic.Value
	gate := make(chan struct{})
	for g := 0; g < nG; g++ {
		wg.Add(1)
		go func(g int) {
			defer wg.Done()
			<-gate
			for k := 0; k < perG; k++ {
				if (g+k)%3 == 2 {
					// the other offset-consuming entry point: the File as the destination of a copy
					if n, err := f.ReadFrom(c01Opaque{bytes.NewReader(rec(g, k))}); n != int64(L) || err != nil {
						bad.Store(fmt.Sprintf("ReadFrom of record %d/%d returned (%d, %v)", g, k, n, err))
					}
					continue
				}
				if n, err := f.Write(rec(g, k)); n != L || err != nil {
					bad.Store(fmt.Sprintf("Write of record %d/%d returned (%d, %v)", g, k, n, err))
				}
			}
		}(g)
	}
	close(gate)
	if w, dump := vfAwait(vfGo(wg.Wait), 120*time.Second); w != vfDone {
		if w == vfStuck {
			u.Violation("shared-write-hangs", label+": the calls do not return\n"+vfTrim(dump, 2000), nil)
		} else {
			u.Inconclusive("%s: wall-clock cap", label)
		}
		return
	}
	cur, _ := f.Seek(0, io.SeekCurrent)
	f.Close()
	got := e.get(p)
	u.Count("transfers", 1)
	u.Count("shared_write_records", nG*perG)
	u.Eval(fmt.Sprintf("shared-write/%d/%s", e.cfg.backend, c01Class(L, e.cfg.P, e.cfg.C)))
	problem := ""
	if v := bad.Load(); v != nil {
		problem = v.(string)
	} else if len(got) != nG*perG*L || cur != int64(nG*perG*L) {
		problem = fmt.Sprintf("%d records of %d bytes were written with full counts; the served file has %d bytes and the offset is %d", nG*perG, L, len(got), cur)
	} else {
		seen := map[byte]int{}
		for i := 0; i < len(got); i += L {
			b := got[i : i+L]
			if bytes.Count(b, b[:1]) != L {
				problem = fmt.Sprintf("the %d bytes at offset %d are not one whole record", L, i)
				break
			}
			seen[b[0]]++
		}
		for t := 1; t <= nG*perG && problem == ""; t++ {
			if seen[byte(t)] != 1 {
				problem = fmt.Sprintf("record %d is in the served file %d times", t, seen[byte(t)])
			}
		}
	}
	if problem != "" {
		u.Violation("served-content:shared-write", label+": "+problem, nil)
	}
	if e.cfg.backend == 0 {
		os.Remove(p)
	}
}

// c01StreamLike (store backend): objects of every non-regular type, and without any type, larger than a packet,
// whose reads come back short without being at the end; WriteTo and a Read loop must still deliver exactly the content.
func c01StreamLike(u *vfUnit, e *c01Env) {
	if e.cfg.backend != 1 || e.cfg.noSizes {
		return
	}
	P := e.cfg.P
	size := min(40*P+5, 300000)
	defer func() { e.store.ShortAt = nil }()
	for i, mode := range []os.FileMode{os.ModeSocket | 0o644, os.ModeNamedPipe | 0o644, os.ModeSymlink | 0o777, os.ModeIrregular | 0o644, os.ModeDevice | os.ModeCharDevice | 0o600, os.ModeDevice | 0o600} {
		p := e.path(9100 + i)
		content := vfPattern(uint64(7200+i), 0, size)
		e.store.Put(p, content)
		e.store.SetMode(p, mode)
		e.store.ShortAt = func(path string, off int64, n int) int {
			if path == p {
				return max(1, min(n, P)/2)
			}
			return 0
		}
		label := fmt.Sprintf("%s | stream-like(%v) F=%d", e.cfg, mode, size)
		f, err := e.sess.C.Open(p)
		if err != nil {
			u.Violation("open-failed", label+": "+err.Error(), nil)
			return
		}
		var buf bytes.Buffer
		var n int64
		var werr error
		if w, dump := vfAwait(vfGo(func() { n, werr = f.WriteTo(&buf) }), 120*time.Second); w != vfDone {
			if w == vfStuck {
				u.Violation("transfer-hangs:WriteTo", label+": WriteTo does not return\n"+vfTrim(dump, 2000), nil)
			} else {
				u.Inconclusive("%s: wall-clock cap", label)
			}
			return
		}
		f.Close()
		u.Count("transfers", 1)
		u.Eval(fmt.Sprintf("stream-like/%d/%v", i, e.cfg.cr))
		if werr != nil || n != int64(size) || !bytes.Equal(buf.Bytes(), content) {
			u.Violation("writeto-content:stream-like", fmt.Sprintf("%s: WriteTo returned (%d, %v) and delivered %d bytes; first difference at %d", label, n, werr, buf.Len(), vfFirstDiff(buf.Bytes(), content)), nil)
		}
	}
}
