//go:build verif

package sftp

// Reorder proxy between a real client and a real server: requests pass through,
// reply frames are held and released in a seeded permutation (SFTP allows replies
// in any order). Deadlock-free rule: flush everything when the proxy holds the
// reply to every outstanding request, release one random reply when K are held.

import (
	"sync"
)

type vfProxyStats struct {
	Requests, Replies int
	OutOfOrder        int // replies delivered while an earlier-arrived reply was still held
	MaxHeld           int
}

type vfProxy struct {
	mu        sync.Mutex
	forwarded int
	delivered int
	held      [][]byte
	heldSeq   []int
	seq       int
	K         int
	rng       *vfRand
	stats     vfProxyStats
	done      chan struct{}
	// TrailDATA: every DATA reply is followed, inside its frame, by one more byte after the data string (later protocol
	// drafts put an optional end-of-file flag there): a string is its length and that many bytes, nothing behind it is content
	TrailDATA bool
}

// vfStartProxy wires clientSide (the proxy's end of the client connection) to
// serverSide (the proxy's end of the server connection).
func vfStartProxy(clientSide, serverSide *vfEnd, k int, rng *vfRand) *vfProxy {
	p := &vfProxy{K: k, rng: rng, done: make(chan struct{})}
	var wg sync.WaitGroup
	wg.Add(2)
	// client -> server: pass through, counting complete request frames
	go func() {
		defer wg.Done()
		var fr vfFramer
		buf := make([]byte, 64*1024)
		for {
			n, err := clientSide.Read(buf)
			if n > 0 {
				frames := fr.Feed(buf[:n])
				p.mu.Lock()
				p.forwarded += len(frames)
				p.stats.Requests += len(frames)
				p.mu.Unlock()
				if _, werr := serverSide.Write(buf[:n]); werr != nil {
					clientSide.Close()
					return
				}
			}
			if err != nil {
				serverSide.CloseWrite()
				return
			}
		}
	}()
	// server -> client: hold and permute
	go func() {
		defer wg.Done()
		var fr vfFramer
		buf := make([]byte, 64*1024)
		flush := func(all bool) bool {
			for len(p.held) > 0 {
				j := p.rng.Intn(len(p.held))
				f, s := p.held[j], p.heldSeq[j]
				p.held = append(p.held[:j], p.held[j+1:]...)
				p.heldSeq = append(p.heldSeq[:j], p.heldSeq[j+1:]...)
				for _, other := range p.heldSeq {
					if other < s {
						p.stats.OutOfOrder++
						break
					}
				}
				p.delivered++
				p.stats.Replies++
				if p.TrailDATA && len(f) > 0 && f[0] == rfData {
					f = append(append([]byte(nil), f...), 0x01)
				}
				p.mu.Unlock()
				_, err := clientSide.Write(vfFrame(f))
				p.mu.Lock()
				if err != nil {
					return false
				}
				if !all {
					break
				}
			}
			return true
		}
		for {
			n, err := serverSide.Read(buf)
			if n > 0 {
				frames := fr.Feed(buf[:n])
				p.mu.Lock()
				ok := true
				for _, f := range frames {
					p.held = append(p.held, f)
					p.heldSeq = append(p.heldSeq, p.seq)
					p.seq++
					if len(p.held) > p.stats.MaxHeld {
						p.stats.MaxHeld = len(p.held)
					}
					outstanding := p.forwarded - p.delivered
					if len(p.held) >= outstanding {
						ok = flush(true)
					} else if len(p.held) >= p.K {
						ok = flush(false)
					}
					if !ok {
						break
					}
				}
				p.mu.Unlock()
				if !ok {
					serverSide.Close()
					return
				}
			}
			if err != nil {
				p.mu.Lock()
				flush(true)
				p.mu.Unlock()
				clientSide.CloseWrite()
				return
			}
		}
	}()
	go func() { wg.Wait(); close(p.done) }()
	return p
}

func (p *vfProxy) Stats() vfProxyStats {
	p.mu.Lock()
	defer p.mu.Unlock()
	return p.stats
}

// vfConnectProxied connects a real client to a real server through a reorder proxy.
func vfConnectProxied(cfg vfSrvCfg, k int, rng *vfRand, opts ...ClientOption) (*vfSession, *vfProxy, error) {
	ce, pc := vfPipe(vfPipeOpts{})
	ps, se := vfPipe(vfPipeOpts{})
	srv, err := vfServe(cfg, se)
	if err != nil {
		return nil, nil, err
	}
	px := vfStartProxy(pc, ps, k, rng)
	c, err := vfNewClient(ce, opts...)
	if err != nil {
		ce.Close()
		se.Close()
		return nil, nil, err
	}
	return &vfSession{C: c, S: srv, Ctl: vfCtl(ce), cEnd: ce, sEnd: se}, px, nil
}
