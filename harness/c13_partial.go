//go:build verif

package sftp

// C13 — On partial failure the count names a prefix that really moved.
// Failures are injected per chunk offset in the handler objects of a real request
// server (each with the distinct message fail@<offset>), replies are permuted by
// the reorder proxy; prefix integrity is checked against the store / sentinel
// buffers, the error must be the one of the lowest failing offset.

import (
	"bytes"
	"fmt"
	"io"
	"os"
	"strings"
	"sync"
	"testing"
	"time"
)

func TestVerifC13(t *testing.T) {
	vfMain(t, vfCheck{
		ID: "C13", Level: "fault_enumeration",
		Rule:        "for each transfer API {WriteAt, Write, ReadFrom (sized and opaque source), ReadFromWithConcurrency, ReadAt, Read, WriteTo} x UseConcurrentReads/Writes x P in {1,3,64} x C in {1,2,3,64}: a 12-chunk transfer (last chunk full or short) with a failure injected at every single chunk index, plus seeded pairs and triples of failing chunks, a failure on the last short chunk, and reads that run into end of file inside or at a chunk boundary before/after a failing chunk; replies arrive in seeded permutations. A class is (API, options, P, C, failing set shape).",
		Assumptions: []string{"the count is not required to be maximal, only to name an intact contiguous prefix", "race detector on"},
		Units: func(tier vfTier, seed uint64) int {
			if tier == vfThorough {
				return 8 * 2 * 3 * 4 * 3 * 10
			}
			return 8 * 2 * 3
		},
		Shards: func(tier vfTier) int {
			if tier == vfThorough {
				return 14
			}
			return 12
		},
		Floors: map[string]int64{"injected_transfers": 800, "apis": 7, "failing_chunk_indices": 12, "transfers_with_reordered_replies": 50},
		Run:    c13Run,
	})
}

type c13Counting struct {
	r io.Reader
	n int64
}

func (c *c13Counting) Read(p []byte) (int, error) {
	n, err := c.r.Read(p)
	c.n += int64(n)
	return n, err
}

type c13Sized struct {
	c *c13Counting
	l int
}

func (s c13Sized) Read(p []byte) (int, error) { return s.c.Read(p) }
func (s c13Sized) Len() int                   { return s.l }

func c13Run(u *vfUnit) {
	r := u.Rng
	apis := []string{"WriteAt", "Write", "ReadFrom-sized", "ReadFrom-opaque", "ReadFromWithConcurrency", "ReadAt", "Read", "WriteTo"}
	i := u.Index
	api := apis[i%8]
	conc := (i/8)%2 == 0
	P := []int{1, 3, 64}[(i/16)%3]
	C := []int{1, 2, 3, 64}[(i/48+i)%4]
	store := vfNewStore()
	var fmu sync.Mutex
	failing := map[int64]bool{}
	failPath := ""
	partial := false // when set, a failing read delivers part of the chunk together with its error
	store.FailAt = func(path string, off int64, n int, write bool) error {
		fmu.Lock()
		defer fmu.Unlock()
		if path == failPath && failing[off] && !(partial && !write) {
			if off%3 == 1 {
				// a backend whose source dropped (io.ReadFull style): still a failure, never the end of the file
				return fmt.Errorf("fail@%d: %w", off, io.ErrUnexpectedEOF)
			}
			return fmt.Errorf("fail@%d", off)
		}
		return nil
	}
	store.PartialAt = func(path string, off int64, n int) (int, error) {
		fmu.Lock()
		defer fmu.Unlock()
		if partial && path == failPath && failing[off] {
			return n / 2, fmt.Errorf("fail@%d", off)
		}
		return 0, nil
	}
	shorting := map[int64]int{} // offset -> bytes delivered by a short (non-EOF) DATA reply
	store.ShortAt = func(path string, off int64, n int) int {
		fmu.Lock()
		defer fmu.Unlock()
		if path == failPath {
			return shorting[off]
		}
		return 0
	}
	sc := vfSrvCfg{Kind: vfRS, Alloc: i%3 == 0, H: store.Handlers(vfHandlerOpt{OpenFile: i%2 == 0})}
	sess, px, err := vfConnectProxied(sc, 2+r.Intn(10), r.Fork(), MaxPacketUnchecked(P), MaxConcurrentRequestsPerFile(C), UseConcurrentReads(conc), UseConcurrentWrites(conc))
	if err != nil {
		u.Inconclusive("connect: %v", err)
		return
	}
	cfgLabel := fmt.Sprintf("%s/conc=%v/P=%d/C=%d", api, conc, P, C)
	isWrite := !(api == "ReadAt" || api == "Read" || api == "WriteTo")
	// failing sets
	type fcase struct {
		idx   []int
		short bool // the last chunk is short
		eofAt int  // reads: file ends at this byte offset relative to O (-1 = file longer than the transfer)
		shape string
		// shortFail (reads through the sequential paths): the failing chunk is first answered with a short
		// DATA reply (half of it, not the end of the file); the follow-up request for the rest fails.
		shortFail bool
		single    bool // the transfer is a single chunk
	}
	var cases []fcase
	for k := 0; k < 12; k++ {
		cases = append(cases, fcase{idx: []int{k}, short: k%2 == 0, eofAt: -1, shape: "single"})
	}
	cases = append(cases, fcase{idx: []int{11}, short: true, eofAt: -1, shape: "last-short"})
	for k := 0; k < 6; k++ {
		a, b, c := r.Intn(12), r.Intn(12), r.Intn(12)
		cases = append(cases, fcase{idx: []int{a, b}, short: k%2 == 0, eofAt: -1, shape: "pair"})
		cases = append(cases, fcase{idx: []int{a, b, c}, short: k%2 == 1, eofAt: -1, shape: "triple"})
	}
	cases = append(cases, fcase{idx: nil, short: true, eofAt: -1, shape: "none"})
	if !isWrite {
		// end of file before / at / after a failing chunk
		cases = append(cases, fcase{idx: []int{8}, eofAt: 5*P + P/2, shape: "eof-inside-before-failure"})
		cases = append(cases, fcase{idx: []int{8}, eofAt: 5 * P, shape: "eof-at-boundary-before-failure"})
		cases = append(cases, fcase{idx: []int{3}, eofAt: 7*P + P/2, shape: "failure-before-eof"})
		cases = append(cases, fcase{idx: nil, eofAt: 7*P + P/2, shape: "eof-inside-no-failure"})
		cases = append(cases, fcase{idx: nil, eofAt: 7 * P, shape: "eof-at-boundary-no-failure"})
		if P > 1 && api != "WriteTo" {
			// a one-chunk read whose reply is short and whose follow-up fails
			cases = append(cases, fcase{idx: []int{0}, eofAt: -1, shape: "single-chunk-short-then-failure", shortFail: true, single: true})
			cases = append(cases, fcase{idx: []int{0}, eofAt: -1, shape: "single-chunk-short-then-failure", shortFail: true, single: true})
		}
		if P > 1 && !conc {
			for k := 0; k < 4; k++ {
				cases = append(cases, fcase{idx: []int{r.Intn(12)}, eofAt: -1, shape: "short-then-failure", shortFail: true})
			}
		}
	}
	for ci, fc := range cases {
		O := []int{0, P, 5, 2*P*C + 1}[ci%4]
		L := 12 * P
		if fc.short && P > 1 {
			L = 11*P + 1 + r.Intn(P-1)
		}
		if fc.single {
			L = P
		}
		path := fmt.Sprintf("/p%d", ci)
		F := O + L + 2*P + 3
		if fc.eofAt >= 0 {
			F = O + fc.eofAt
		}
		if isWrite {
			F = []int{0, O + L/2, O + L + 5}[ci%3]
		}
		initial := vfPattern(uint64(ci+1), 0, F)
		store.Put(path, initial)
		fmu.Lock()
		for k := range failing {
			delete(failing, k)
		}
		for k := range shorting {
			delete(shorting, k)
		}
		failPath = path
		partial = !isWrite && ci%3 == 1 && P > 1 && !fc.shortFail
		if partial {
			u.Count("partial_read_failures", 1)
		}
		minFail := int64(-1)
		for _, k := range fc.idx {
			off := int64(O + k*P)
			if fc.shortFail {
				shorting[off] = P / 2
				off += int64(P / 2)
				u.Count("short_reply_then_failure", 1)
			}
			failing[off] = true
			if minFail < 0 || off < minFail {
				minFail = off
			}
			u.SetAdd("failing_chunk_indices", fmt.Sprint(k))
		}
		fmu.Unlock()
		data := vfPattern(uint64(900+ci), int64(O), L)
		label := fmt.Sprintf("%s fail@chunks%v O=%d L=%d F=%d", cfgLabel, fc.idx, O, L, F)
		w := map[string]any{"case": label, "unit": u.Index, "case_index": ci}
		viol := func(key, what string) { u.Violation(key+":"+api, label+": "+what, w) }
		before := px.Stats()
		oflags := os.O_RDWR
		if i%2 == 1 {
			// no OpenFileWriter: the request server offers read-only or write-only handles
			if isWrite {
				oflags = os.O_WRONLY
			} else {
				oflags = os.O_RDONLY
			}
		}
		f, err := sess.C.OpenFile(path, oflags)
		if err != nil {
			viol("open-failed", err.Error())
			continue
		}
		var n int64
		var cerr error
		var consumed int64 = -1
		var got []byte // bytes received (reads)
		var offAfter int64 = -1
		done := vfGo(func() {
			switch api {
			case "WriteAt":
				nn, e := f.WriteAt(data, int64(O))
				n, cerr = int64(nn), e
			case "Write":
				f.Seek(int64(O), io.SeekStart)
				nn, e := f.Write(data)
				n, cerr = int64(nn), e
				offAfter, _ = f.Seek(0, io.SeekCurrent)
			case "ReadFrom-sized", "ReadFrom-opaque", "ReadFromWithConcurrency":
				f.Seek(int64(O), io.SeekStart)
				cnt := &c13Counting{r: bytes.NewReader(data)}
				var src io.Reader = cnt
				if api == "ReadFrom-sized" {
					src = c13Sized{cnt, len(data)}
				}
				if api == "ReadFromWithConcurrency" {
					n, cerr = f.ReadFromWithConcurrency(src, []int{0, 1, 2, C + 1}[ci%4])
				} else {
					n, cerr = f.ReadFrom(src)
				}
				consumed = cnt.n
				offAfter, _ = f.Seek(0, io.SeekCurrent)
			case "ReadAt":
				buf := bytes.Repeat([]byte{0xEE}, L)
				nn, e := f.ReadAt(buf, int64(O))
				n, cerr, got = int64(nn), e, buf
			case "Read":
				f.Seek(int64(O), io.SeekStart)
				buf := bytes.Repeat([]byte{0xEE}, L)
				nn, e := f.Read(buf)
				n, cerr, got = int64(nn), e, buf
				offAfter, _ = f.Seek(0, io.SeekCurrent)
			case "WriteTo":
				f.Seek(int64(O), io.SeekStart)
				var b bytes.Buffer
				n, cerr = f.WriteTo(&b)
				got = b.Bytes()
			}
		})
		if wv, dump := vfAwait(done, 120*time.Second); wv != vfDone {
			if wv == vfStuck {
				viol("transfer-hangs", "call does not return, process quiescent\n"+vfTrim(dump, 2500))
			} else {
				u.Inconclusive("%s: wall-clock cap", label)
			}
			return
		}
		fmu.Lock()
		for k := range failing {
			delete(failing, k)
		}
		for k := range shorting {
			delete(shorting, k)
		}
		fmu.Unlock()
		f.Close()
		u.Eval(fmt.Sprintf("%s/%s/short=%v", cfgLabel, fc.shape, fc.short))
		u.Count("injected_transfers", 1)
		u.SetAdd("apis", strings.SplitN(api, "-", 2)[0])
		if px.Stats().OutOfOrder > before.OutOfOrder {
			u.Count("transfers_with_reordered_replies", 1)
		}
		if ci == 0 {
			u.Sample(map[string]any{"case": label, "returned": fmt.Sprintf("(%d, %v)", n, cerr)})
		}
		content, _ := store.Get(path)
		// Write and Read: the count and the File offset tell the same story also when a later chunk failed (the offset
		// advances by the bytes the call reports, C12's clause, observed here because this is where chunks fail): the next
		// sequential call must continue behind the prefix the count names, not on top of it
		if (api == "Write" || api == "Read") && offAfter >= 0 && n >= 0 && offAfter != int64(O)+n {
			viol("offset-disagrees-with-count:"+api, fmt.Sprintf("the call started at offset %d and returned (%d, %v), the File offset afterwards is %d", O, n, cerr, offAfter))
		}
		if api == "Write" || api == "Read" {
			u.Count("offsets_compared_with_counts", 1)
		}
		// expected error
		reqEnd := int64(O + L) // end of the requested range
		if api == "WriteTo" {
			reqEnd = int64(F) + 1<<40 // until EOF
		}
		trueEOF := int64(F)
		failVisible := minFail >= 0 && (isWrite || minFail < trueEOF)
		wantMsg := ""
		if failVisible {
			wantMsg = fmt.Sprintf("fail@%d", minFail)
		}
		errText := ""
		if cerr != nil {
			errText = cerr.Error()
		}
		if isWrite {
			if failVisible {
				if cerr == nil {
					viol("failure-swallowed", fmt.Sprintf("chunk at offset %d failed but the call returned (%d, nil)", minFail, n))
				} else if !strings.Contains(errText, wantMsg) {
					viol("wrong-error", fmt.Sprintf("returned error %q, the lowest failing offset's error is %q", errText, wantMsg))
				}
			} else if cerr != nil || n != int64(L) {
				viol("no-failure-result", fmt.Sprintf("no chunk failed but the call returned (%d, %v)", n, cerr))
			}
			if strings.HasPrefix(api, "ReadFrom") {
				if consumed >= 0 && n != consumed {
					viol("readfrom-count", fmt.Sprintf("returned count %d but %d bytes were consumed from the source", n, consumed))
				}
				// the File offset marks the end of an intact prefix
				if offAfter >= 0 {
					p := offAfter - int64(O)
					if p < 0 || p > int64(L) {
						viol("readfrom-offset-range", fmt.Sprintf("File offset after the call is %d (start %d, length %d)", offAfter, O, L))
					} else if p > 0 && (int(offAfter) > len(content) || !bytes.Equal(content[O:offAfter], data[:p])) {
						viol("readfrom-offset-not-intact", fmt.Sprintf("File offset %d claims an intact prefix of %d bytes, but the store differs at byte %d", offAfter, p, vfFirstDiff(content[min(O, len(content)):min(int(offAfter), len(content))], data[:p])))
					} else if failVisible && offAfter > minFail {
						viol("readfrom-offset-beyond-failure", fmt.Sprintf("File offset %d lies beyond the failed chunk at %d", offAfter, minFail))
					} else if !failVisible && p != int64(L) {
						viol("readfrom-offset-short", fmt.Sprintf("no failure, but the File offset advanced by %d of %d", p, L))
					}
				}
			} else {
				if n < 0 || n > int64(L) {
					viol("count-range", fmt.Sprintf("count %d out of range", n))
				} else {
					if n < int64(L) && cerr == nil {
						viol("short-count-nil-error", fmt.Sprintf("returned (%d, nil) for a %d-byte write", n, L))
					}
					if n > 0 && (O+int(n) > len(content) || !bytes.Equal(content[O:O+int(n)], data[:n])) {
						viol("count-not-intact", fmt.Sprintf("returned count %d, but the first %d bytes are not all in the store (difference at %d)", n, n, vfFirstDiff(content[min(O, len(content)):min(O+int(n), len(content))], data[:n])))
					}
					if failVisible && int64(O)+n > minFail {
						viol("count-beyond-failure", fmt.Sprintf("count %d reaches beyond the failed chunk at offset %d", n, minFail))
					}
				}
			}
		} else {
			// reads
			avail := int64(0)
			if trueEOF > int64(O) {
				avail = min(trueEOF, reqEnd) - int64(O)
			}
			eofExpected := !failVisible && int64(O)+avail < reqEnd // the transfer runs into the true end of file
			if n < 0 || n > int64(len(got)) {
				viol("count-range", fmt.Sprintf("count %d out of range (received %d bytes)", n, len(got)))
				continue
			}
			if api == "WriteTo" && int64(len(got)) != n {
				viol("writeto-count", fmt.Sprintf("returned %d but the writer received %d bytes", n, len(got)))
			}
			if n > 0 && (int(n) > len(initial)-min(O, len(initial)) || !bytes.Equal(got[:n], initial[O:O+int(n)])) {
				viol("count-not-intact", fmt.Sprintf("returned count %d, but the first %d bytes differ from the file (at %d)", n, n, vfFirstDiff(got[:n], initial[min(O, len(initial)):])))
			}
			if failVisible {
				if int64(O)+n > minFail {
					viol("count-beyond-failure", fmt.Sprintf("count %d reaches beyond the failed chunk at offset %d", n, minFail))
				}
				if cerr == nil {
					viol("failure-swallowed", fmt.Sprintf("chunk at offset %d failed but the call returned (%d, nil)", minFail, n))
				} else if cerr == io.EOF {
					viol("failure-turned-into-eof", fmt.Sprintf("chunk at offset %d failed (file ends at %d) but the call returned io.EOF", minFail, trueEOF))
				} else if !strings.Contains(errText, wantMsg) {
					viol("wrong-error", fmt.Sprintf("returned error %q, the lowest failing offset's error is %q", errText, wantMsg))
				}
			} else {
				switch api {
				case "WriteTo":
					if cerr != nil || n != avail {
						viol("no-failure-result", fmt.Sprintf("no visible failure: returned (%d, %v), want (%d, nil)", n, cerr, avail))
					}
				case "ReadAt":
					if n != avail || (eofExpected && cerr != io.EOF) || (!eofExpected && cerr != nil) {
						viol("no-failure-result", fmt.Sprintf("no visible failure: returned (%d, %v), want (%d, eof=%v)", n, cerr, avail, eofExpected))
					}
				case "Read":
					if n != avail || (cerr != nil && cerr != io.EOF) || (!eofExpected && cerr == io.EOF) {
						viol("no-failure-result", fmt.Sprintf("no visible failure: returned (%d, %v), want (%d, eof=%v)", n, cerr, avail, eofExpected))
					}
				}
			}
			if cerr == io.EOF && int64(O)+n != trueEOF && !(n == 0 && int64(O) >= trueEOF) {
				viol("eof-not-at-true-end", fmt.Sprintf("io.EOF reported with count %d (offset %d) but the file ends at %d", n, int64(O)+n, trueEOF))
			}
			if api != "WriteTo" {
				for k := int(n); k < len(got); k++ {
					if got[k] != 0xEE && failVisible && int64(O+k) >= minFail && false {
						break
					}
				}
			}
		}
	}
	if msg := sess.Close(); msg != "" {
		u.Violation("session-close", msg, nil)
	}
}
