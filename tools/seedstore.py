#!/usr/bin/env python3
"""tools/seedstore.py <name> <property> <seed-dir> <detected-by> <needs> [<note>]  — stores a confirmed seeded change under seeded/<name>/"""
import sys, os, shutil, json, glob
name, prop, sd, det, needs = sys.argv[1:6]
note = sys.argv[6] if len(sys.argv) > 6 else ""
here = os.path.dirname(os.path.dirname(os.path.abspath(__file__)))
d = os.path.join(here, "seeded", name)
os.makedirs(d, exist_ok=True)
shutil.copy(os.path.join(sd, "patch.diff"), os.path.join(d, "patch.diff"))
for f in glob.glob(os.path.join(sd, "*_test.go")) + glob.glob(os.path.join(sd, "*.go")):
    # stored with a .txt suffix so that no Go tool ever tries to build it in place
    shutil.copy(f, os.path.join(d, os.path.basename(f) + ".txt"))
if os.path.exists(os.path.join(sd, "NOTES.md")):
    shutil.copy(os.path.join(sd, "NOTES.md"), os.path.join(d, "NOTES.md"))
meta = {
    "property": prop,
    "origin": "written by a fresh sub-agent that was given only the property text and a scratch worktree",
    "needs_to_manifest": needs,
    "confirmed": "tools/seedcheck.sh: the repository's own suite passes with the change; the demonstration fails with it and passes without it (scratch copy); then `git -C /repo apply patch.diff`, ./check <ID> --tier quick, `git -C /repo checkout -- .`",
    "detected_by": det,
    "note": note,
}
json.dump(meta, open(os.path.join(d, "meta.json"), "w"), indent=1)
print("stored", d)
