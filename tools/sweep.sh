#!/bin/bash
# tools/sweep.sh [quick|thorough] [seed]  — runs every claimed check once and prints one line each
TIER=${1:-quick}; export VERIF_SEED=${2:-1}
cd "$(dirname "$0")/.."
for id in $(python3 -c "import json;print(' '.join(c['property_id'] for c in json.load(open('MANIFEST.json'))['checks']))"); do
  s=$(date +%s)
  out=$(./check $id --tier $TIER 2>&1); rc=$?
  e=$(date +%s)
  echo "$id rc=$rc $((e-s))s $(echo "$out" | grep -a -E 'VIOLATION|INCONCLUSIVE|KNOWN' | head -3 | tr '\n' ' ' | cut -c1-300)"
done
