//go:build verif

package sftp

// Hook log and seeded schedule perturbation on the tag-guarded hook points.

import (
	"runtime"
	"sync"
	"time"
	"unsafe"
)

type vfHookEv struct {
	Point   int
	ID, OID uint32
	Page    uintptr
}

type vfHookCfg struct {
	Seed uint64
	// DelayPct: hook point -> probability (percent) of perturbing at that point.
	DelayPct map[int]int
	// MaxSleepUs: upper bound of an injected sleep in microseconds (0 = yields only).
	MaxSleepUs int
	// Bias, if set, decides the perturbation for an event deterministically
	// (return <0: no delay, 0: yield, >0: sleep that many microseconds).
	Bias func(ev vfHookEv) int
	// On is called (under the log's lock) for every event: online monitors.
	On func(ev vfHookEv)
	// NoLog disables event recording (long stress runs).
	NoLog bool
}

type vfHookLog struct {
	mu  sync.Mutex
	ev  []vfHookEv
	rng *vfRand
	cfg vfHookCfg
	cnt [16]int64
}

var vfHookPointNames = []string{"allocGet", "allocRelease", "allocFree", "pmIncoming", "pmReady", "pmDispatch", "pmSendBegin", "pmSendEnd", "srvWorker", "rsWorker", "cliAfterRegister", "cliBeforeDeliver", "cliBeforeBroadcast"}

func vfInstallHooks(cfg vfHookCfg) *vfHookLog {
	l := &vfHookLog{rng: vfNewRand(cfg.Seed), cfg: cfg}
	fn := func(point int, id, oid uint32, b []byte) {
		ev := vfHookEv{Point: point, ID: id, OID: oid}
		if len(b) > 0 {
			ev.Page = uintptr(unsafe.Pointer(unsafe.SliceData(b)))
		}
		l.mu.Lock()
		if point >= 0 && point < len(l.cnt) {
			l.cnt[point]++
		}
		if !l.cfg.NoLog {
			l.ev = append(l.ev, ev)
		}
		if l.cfg.On != nil {
			l.cfg.On(ev)
		}
		d := -1
		if l.cfg.Bias != nil {
			d = l.cfg.Bias(ev)
		} else if pct := l.cfg.DelayPct[point]; pct > 0 && l.rng.Intn(100) < pct {
			if l.cfg.MaxSleepUs > 0 && l.rng.Bool() {
				d = 1 + l.rng.Intn(l.cfg.MaxSleepUs)
			} else {
				d = 0
			}
		}
		l.mu.Unlock()
		// never delay inside the allocator's critical section (monitor-only points)
		if point == vhAllocGet || point == vhAllocRelease || point == vhAllocFree {
			return
		}
		switch {
		case d == 0:
			runtime.Gosched()
		case d > 0:
			time.Sleep(time.Duration(d) * time.Microsecond)
		}
	}
	verifHookFn.Store(&fn)
	return l
}

func (l *vfHookLog) Uninstall() { verifHookFn.Store(nil) }

func (l *vfHookLog) Events() []vfHookEv {
	l.mu.Lock()
	defer l.mu.Unlock()
	return append([]vfHookEv(nil), l.ev...)
}

func (l *vfHookLog) Count(point int) int64 {
	l.mu.Lock()
	defer l.mu.Unlock()
	return l.cnt[point]
}

func (l *vfHookLog) Reset() {
	l.mu.Lock()
	l.ev = nil
	l.mu.Unlock()
}

// vfCompletionStats derives from a hook log how often the packet manager had to
// repair the order: number of pmReady events whose order id is lower than an
// order id that became ready earlier, and a signature of the completion order.
func vfCompletionStats(evs []vfHookEv) (inversions int, sig uint64, ready int) {
	var maxSeen uint32
	h := uint64(1469598103934665603)
	for _, e := range evs {
		if e.Point != vhPmReady {
			continue
		}
		ready++
		if e.OID < maxSeen {
			inversions++
		} else {
			maxSeen = e.OID
		}
		h = (h ^ uint64(e.OID)) * 1099511628211
	}
	return inversions, h, ready
}
