//go:build verif

package sftp

// vfStore: an instrumented in-memory backend for the request server. Files are
// mutex-atomic byte arrays; every handler call is recorded; every object handed
// to the server counts its Close / TransferError calls, calls after Close and the
// ReadAt/WriteAt calls in flight.

import (
	"context"
	"fmt"
	"io"
	"os"
	"sort"
	"strings"
	"sync"
	"sync/atomic"
	"time"
)

type vfCall struct {
	Iface  string // FileGet | FilePut | OpenFile | FileCmd | FileList | Lstat | PosixRename | StatVFS | RealPath | Readlink
	Method string
	Path   string
	Target string
	Flags  uint32
	Attrs  []byte
	// AttrView: how the package's own accessors (Request.AttrFlags, Request.Attributes) differ from an independent
	// decoding of Flags+Attrs ("" = they agree); filled for requests that carry attributes
	AttrView string
}

// vfAttrView compares Request.Attributes()/AttrFlags() with the reference decoding of the raw attribute bytes.
func vfAttrView(r *Request) string {
	if r.Method != "Setstat" && r.Method != "Open" && r.Method != "Put" && r.Method != "Mkdir" {
		return ""
	}
	w := &rfW{}
	w.u32(r.Flags)
	rd := &rfR{b: append(w.b, r.Attrs...)}
	want := rd.attrs()
	if rd.err != nil {
		return "" // not well-formed: nothing to compare
	}
	got := r.Attributes()
	fl := r.AttrFlags()
	var probs []string
	if fl.Size != (want.Flags&rfAttrSize != 0) || fl.UidGid != (want.Flags&rfAttrUIDGID != 0) || fl.Permissions != (want.Flags&rfAttrPerm != 0) || fl.Acmodtime != (want.Flags&rfAttrTime != 0) {
		probs = append(probs, fmt.Sprintf("AttrFlags() = %+v for flags %#x", fl, r.Flags))
	}
	if got == nil {
		return "Attributes() = nil"
	}
	if want.Flags&rfAttrSize != 0 && got.Size != want.Size {
		probs = append(probs, fmt.Sprintf("Attributes().Size = %d, sent %d", got.Size, want.Size))
	}
	if want.Flags&rfAttrUIDGID != 0 && (got.UID != want.UID || got.GID != want.GID) {
		probs = append(probs, fmt.Sprintf("Attributes() owner = %d:%d, sent %d:%d", got.UID, got.GID, want.UID, want.GID))
	}
	if want.Flags&rfAttrPerm != 0 && got.Mode != want.Perm {
		probs = append(probs, fmt.Sprintf("Attributes().Mode = %#o, sent %#o", got.Mode, want.Perm))
	}
	if want.Flags&rfAttrTime != 0 && (got.Atime != want.Atime || got.Mtime != want.Mtime) {
		probs = append(probs, fmt.Sprintf("Attributes() times = %d/%d, sent %d/%d", got.Atime, got.Mtime, want.Atime, want.Mtime))
	}
	if len(got.Extended) != len(want.Ext) {
		probs = append(probs, fmt.Sprintf("Attributes().Extended has %d pairs, sent %d", len(got.Extended), len(want.Ext)))
	} else {
		for i, e := range want.Ext {
			if got.Extended[i].ExtType != e[0] || got.Extended[i].ExtData != e[1] {
				probs = append(probs, fmt.Sprintf("Attributes().Extended[%d] = %q=%q, sent %q=%q", i, got.Extended[i].ExtType, got.Extended[i].ExtData, e[0], e[1]))
			}
		}
	}
	return strings.Join(probs, "; ")
}

func (c vfCall) String() string {
	return fmt.Sprintf("%s(%s %q -> %q flags=%#x attrs=%x)", c.Iface, c.Method, vfTrim(c.Path, 60), vfTrim(c.Target, 60), c.Flags, vfTrimB(c.Attrs, 40))
}

type vfFile struct {
	mu    sync.Mutex
	data  []byte
	mtime int64
	isDir bool
	link  string
	// sizeZero: the backend does not know sizes: Stat reports 0 whatever the content is
	sizeZero bool
	st       *vfStore
	mode     os.FileMode
}

type vfObj struct {
	st   *vfStore
	file *vfFile
	path string
	kind string // get | put | open | list
	ctx  context.Context

	closes          atomic.Int32
	transferErrs    atomic.Int32
	afterClose      atomic.Int32 // ReadAt/WriteAt/ListAt calls that started after Close was invoked
	inflight        atomic.Int32
	maxInflight     atomic.Int32
	inflightAtClose atomic.Int32 // in-flight ReadAt/WriteAt observed when Close was invoked (max)
	statCalls       atomic.Int32
	poison          atomic.Bool  // set by TransferError when the store is configured that way: later reads and writes fail
	closedBeforeTE  atomic.Int32 // TransferError delivered after Close
	closed          atomic.Bool
	ctxDoneAtClose  atomic.Bool
	reads, writes   atomic.Int32
	list            []os.FileInfo
}

type vfStore struct {
	mu    sync.Mutex
	files map[string]*vfFile
	calls []vfCall
	objs  []*vfObj

	// Delay, if set, is called inside ReadAt/WriteAt (between entry and the data access).
	Delay func(write bool, off int64)
	// FailAt, if set, may fail a ReadAt/WriteAt on (path, offset).
	FailAt func(path string, off int64, n int, write bool) error
	// OpenErr, CmdErr, ListErr: injected handler results (nil = normal behaviour).
	// CmdDelay, if set, runs at the start of every Filecmd call (a slow metadata operation)
	CmdDelay func(method string)
	// CloseHook, if set, runs inside Close of a handler object, after the object has been marked closed and before
	// Close returns (a slow Close: it may block).
	CloseHook func(path string)
	// CloseErr, if set, is what Close of a handler object returns (the object still counts the call).
	CloseErr func(path string) error
	// PartialAt, if set, may make a ReadAt deliver keep bytes and then fail with err (n > 0 together with a non-EOF error).
	PartialAt func(path string, off int64, n int) (keep int, err error)
	OpenErr   func(method, path string) error
	CmdErr    func(method, path string) error
	ListErr   func(method, path string) error
	// ListAtErr, if set, is what ListAt of a lister object returns (with no entries) — the handler call itself succeeded.
	ListAtErr func(path string) error
	// ShortAt, if set, may cap a ReadAt at fewer bytes than asked for, with a nil error (a short
	// DATA reply that is not the end of the file: unusual, legal for a peer). 0 = no cap.
	ShortAt func(path string, off int64, n int) int
	// ReportSizeStale: attributes report three fifths of a file's real size (a file that has grown since its size was
	// taken): what is read must still be the whole content
	ReportSizeStale bool
	// ReportSizeZero: files created from now on report size 0 in their attributes (a backend without sizes, procfs-like)
	ReportSizeZero bool
	// ViaWithContext: every handler method first derives its own request with Request.WithContext (the usual way
	// to attach a deadline or a value) and works with the returned request only: its fields, its context. Listers
	// then also refuse to list once the context they were created under is done.
	ViaWithContext bool
	// SharedReplies: StatVFS hands out one and the same *StatVFS value on every call (a handler that keeps its
	// answer around). Only meaningful when requests are issued one at a time.
	SharedReplies bool
	sharedVFS     *StatVFS
	// TransferErrorPoisons: an object that was told of a transfer error refuses further reads and writes (as the
	// package's own in-memory file does)
	TransferErrorPoisons bool
	// CtxBoundObjects: ReadAt/WriteAt of handler objects fail once the context of the request that opened them is done
	// (an object that passes the context on to its backend)
	CtxBoundObjects bool
	// EagerEOF: a read that reaches the end of the file reports io.EOF together with its bytes, also when it
	// filled the buffer (io.ReaderAt: "may return either err == EOF or err == nil" in that case)
	EagerEOF bool
	Now      int64
}

func vfNewStore() *vfStore {
	s := &vfStore{files: map[string]*vfFile{}, Now: 1500000000}
	s.files["/"] = &vfFile{isDir: true, mode: os.ModeDir | 0o755, mtime: s.Now}
	return s
}

func (s *vfStore) record(c vfCall) {
	s.mu.Lock()
	s.calls = append(s.calls, c)
	s.mu.Unlock()
}

func (s *vfStore) Calls() []vfCall {
	s.mu.Lock()
	defer s.mu.Unlock()
	return append([]vfCall(nil), s.calls...)
}

func (s *vfStore) ResetCalls() {
	s.mu.Lock()
	s.calls = nil
	s.mu.Unlock()
}

func (s *vfStore) Objs() []*vfObj {
	s.mu.Lock()
	defer s.mu.Unlock()
	return append([]*vfObj(nil), s.objs...)
}

// Put creates or replaces a regular file.
func (s *vfStore) Put(path string, data []byte) {
	s.mu.Lock()
	s.files[path] = &vfFile{data: append([]byte(nil), data...), mode: 0o644, mtime: s.Now, sizeZero: s.ReportSizeZero, st: s}
	s.mu.Unlock()
}

// SetMode replaces the mode (type and permission bits) reported for an existing entry.
func (s *vfStore) SetMode(path string, mode os.FileMode) {
	s.mu.Lock()
	defer s.mu.Unlock()
	if f, ok := s.files[path]; ok {
		f.mode = mode
	}
}

func (s *vfStore) Mkdir(path string) {
	s.mu.Lock()
	s.files[path] = &vfFile{isDir: true, mode: os.ModeDir | 0o755, mtime: s.Now}
	s.mu.Unlock()
}

func (s *vfStore) Get(path string) ([]byte, bool) {
	s.mu.Lock()
	f := s.files[path]
	s.mu.Unlock()
	if f == nil {
		return nil, false
	}
	f.mu.Lock()
	defer f.mu.Unlock()
	return append([]byte(nil), f.data...), true
}

// Snapshot renders the whole store (for differential comparisons).
func (s *vfStore) Snapshot() string {
	s.mu.Lock()
	defer s.mu.Unlock()
	var keys []string
	for k := range s.files {
		keys = append(keys, k)
	}
	sort.Strings(keys)
	var b strings.Builder
	for _, k := range keys {
		f := s.files[k]
		f.mu.Lock()
		fmt.Fprintf(&b, "%s dir=%v link=%q len=%d h=%x\n", k, f.isDir, f.link, len(f.data), vfHash(string(f.data)))
		f.mu.Unlock()
	}
	return b.String()
}

type vfCtxKey struct{}

// req is what a handler method works with: the request it was given, or (ViaWithContext) its own derivation of it.
func (s *vfStore) req(r *Request) *Request {
	if s.ViaWithContext {
		return r.WithContext(context.WithValue(r.Context(), vfCtxKey{}, "vf"))
	}
	return r
}

func (s *vfStore) newObj(f *vfFile, path, kind string, r *Request) *vfObj {
	o := &vfObj{st: s, file: f, path: path, kind: kind, ctx: r.Context()}
	s.mu.Lock()
	s.objs = append(s.objs, o)
	s.mu.Unlock()
	return o
}

func (o *vfObj) enter() {
	if o.closed.Load() {
		o.afterClose.Add(1)
	}
	n := o.inflight.Add(1)
	for {
		m := o.maxInflight.Load()
		if n <= m || o.maxInflight.CompareAndSwap(m, n) {
			break
		}
	}
}

func (o *vfObj) ReadAt(p []byte, off int64) (int, error) {
	o.enter()
	defer o.inflight.Add(-1)
	o.reads.Add(1)
	if o.st.Delay != nil {
		o.st.Delay(false, off)
	}
	if o.st.FailAt != nil {
		if err := o.st.FailAt(o.path, off, len(p), false); err != nil {
			return 0, err
		}
	}
	if o.st.CtxBoundObjects && o.ctx.Err() != nil {
		return 0, o.ctx.Err()
	}
	if o.poison.Load() {
		return 0, fmt.Errorf("object was told of a transfer error")
	}
	if off < 0 {
		return 0, fmt.Errorf("negative offset %d", off)
	}
	o.file.mu.Lock()
	defer o.file.mu.Unlock()
	if off >= int64(len(o.file.data)) {
		return 0, io.EOF
	}
	if o.st.PartialAt != nil {
		if keep, perr := o.st.PartialAt(o.path, off, len(p)); perr != nil {
			n := copy(p[:min(keep, len(p))], o.file.data[off:])
			return n, perr
		}
	}
	if o.st.ShortAt != nil {
		if k := o.st.ShortAt(o.path, off, len(p)); k > 0 && k < len(p) && off+int64(k) < int64(len(o.file.data)) {
			return copy(p[:k], o.file.data[off:]), nil
		}
	}
	n := copy(p, o.file.data[off:])
	if n < len(p) || (o.st.EagerEOF && off+int64(n) == int64(len(o.file.data))) {
		return n, io.EOF
	}
	return n, nil
}

func (o *vfObj) WriteAt(p []byte, off int64) (int, error) {
	o.enter()
	defer o.inflight.Add(-1)
	o.writes.Add(1)
	if o.st.Delay != nil {
		o.st.Delay(true, off)
	}
	if o.st.FailAt != nil {
		if err := o.st.FailAt(o.path, off, len(p), true); err != nil {
			return 0, err
		}
	}
	if o.st.CtxBoundObjects && o.ctx.Err() != nil {
		return 0, o.ctx.Err()
	}
	if o.poison.Load() {
		return 0, fmt.Errorf("object was told of a transfer error")
	}
	if off < 0 || off > 1<<26 {
		return 0, fmt.Errorf("offset %d out of the store's range", off)
	}
	o.file.mu.Lock()
	defer o.file.mu.Unlock()
	if len(p) == 0 {
		return 0, nil // like pwrite: a zero-length write does not extend the file
	}
	if need := int(off) + len(p); need > len(o.file.data) {
		o.file.data = append(o.file.data, make([]byte, need-len(o.file.data))...)
	}
	copy(o.file.data[off:], p)
	return len(p), nil
}

func (o *vfObj) ListAt(out []os.FileInfo, off int64) (int, error) {
	if o.closed.Load() {
		o.afterClose.Add(1)
	}
	if o.st.ListAtErr != nil {
		if err := o.st.ListAtErr(o.path); err != nil {
			return 0, err
		}
	}
	if o.st.ViaWithContext && o.ctx.Err() != nil {
		// a lister bound to the context of the request that created it (a database cursor, a remote listing)
		return 0, o.ctx.Err()
	}
	if off >= int64(len(o.list)) {
		return 0, io.EOF
	}
	n := copy(out, o.list[off:])
	if int(off)+n >= len(o.list) {
		return n, io.EOF
	}
	return n, nil
}

func (o *vfObj) Close() error {
	if n := o.inflight.Load(); n > o.inflightAtClose.Load() {
		o.inflightAtClose.Store(n)
	}
	o.closed.Store(true)
	o.closes.Add(1)
	if o.st.CloseHook != nil {
		o.st.CloseHook(o.path)
	}
	if o.st.CloseErr != nil {
		return o.st.CloseErr(o.path)
	}
	return nil
}

// Stat: the handler objects have a method set of their own (like an *os.File handed out by a handler); nobody is
// supposed to ask them about attributes: those come from the FileLister.
func (o *vfObj) Stat() (os.FileInfo, error) {
	o.statCalls.Add(1)
	return vfStoreInfo{"object-not-the-lister", &vfFile{data: make([]byte, 424242), mode: 0o400}}, nil
}

func (o *vfObj) TransferError(err error) {
	if o.closed.Load() {
		o.closedBeforeTE.Add(1)
	}
	o.transferErrs.Add(1)
	if o.st.TransferErrorPoisons {
		o.poison.Store(true)
	}
}

func (o *vfObj) CtxDone() bool {
	select {
	case <-o.ctx.Done():
		return true
	default:
		return false
	}
}

type vfStoreInfo struct {
	name string
	f    *vfFile
}

func (i vfStoreInfo) Name() string { return i.name }
func (i vfStoreInfo) Size() int64 {
	i.f.mu.Lock()
	defer i.f.mu.Unlock()
	if i.f.link != "" {
		return int64(len(i.f.link))
	}
	if i.f.st != nil && i.f.st.ReportSizeStale {
		// a size taken a while ago: the file has grown since (by two fifths)
		return int64(len(i.f.data)) * 3 / 5
	}
	if i.f.sizeZero {
		return 0
	}
	return int64(len(i.f.data))
}
func (i vfStoreInfo) Mode() os.FileMode {
	if i.f.link != "" {
		return os.ModeSymlink | 0o777
	}
	return i.f.mode
}
func (i vfStoreInfo) ModTime() time.Time { return time.Unix(i.f.mtime, 0) }
func (i vfStoreInfo) IsDir() bool        { return i.f.isDir }
func (i vfStoreInfo) Sys() any           { return nil }

// ---- handler implementations --------------------------------------------------

type vfHBase struct{ s *vfStore }

func baseName(p string) string {
	if i := strings.LastIndex(p, "/"); i >= 0 && i < len(p)-1 {
		return p[i+1:]
	}
	return p
}

func (h vfHBase) open(r *Request, iface, kind string) (*vfObj, error) {
	s := h.s
	r = s.req(r)
	s.record(vfCall{Iface: iface, Method: r.Method, Path: r.Filepath, Flags: r.Flags, Attrs: append([]byte(nil), r.Attrs...), AttrView: vfAttrView(r)})
	if s.OpenErr != nil {
		if err := s.OpenErr(r.Method, r.Filepath); err != nil {
			return nil, err
		}
	}
	fl := r.Pflags()
	s.mu.Lock()
	f := s.files[r.Filepath]
	if f == nil {
		if !fl.Creat {
			s.mu.Unlock()
			return nil, os.ErrNotExist
		}
		f = &vfFile{mode: 0o644, mtime: s.Now, sizeZero: s.ReportSizeZero, st: s}
		s.files[r.Filepath] = f
	} else if f.isDir {
		s.mu.Unlock()
		return nil, fmt.Errorf("is a directory: %s", r.Filepath)
	} else if fl.Creat && fl.Excl {
		s.mu.Unlock()
		return nil, os.ErrExist
	}
	s.mu.Unlock()
	if fl.Trunc {
		f.mu.Lock()
		f.data = nil
		f.mu.Unlock()
	}
	return s.newObj(f, r.Filepath, kind, r), nil
}

func (h vfHBase) Fileread(r *Request) (io.ReaderAt, error) {
	o, err := h.open(r, "FileGet", "get")
	if err != nil {
		return nil, err
	}
	return o, nil
}

func (h vfHBase) Filewrite(r *Request) (io.WriterAt, error) {
	o, err := h.open(r, "FilePut", "put")
	if err != nil {
		return nil, err
	}
	return o, nil
}

func (h vfHBase) Filecmd(r *Request) error {
	s := h.s
	r = s.req(r)
	if s.CmdDelay != nil {
		s.CmdDelay(r.Method)
	}
	s.record(vfCall{Iface: "FileCmd", Method: r.Method, Path: r.Filepath, Target: r.Target, Flags: r.Flags, Attrs: append([]byte(nil), r.Attrs...), AttrView: vfAttrView(r)})
	if s.CmdErr != nil {
		if err := s.CmdErr(r.Method, r.Filepath); err != nil {
			return err
		}
	}
	s.mu.Lock()
	defer s.mu.Unlock()
	switch r.Method {
	case "Setstat":
		f := s.files[r.Filepath]
		if f == nil {
			return os.ErrNotExist
		}
		if at := r.Attributes(); r.AttrFlags().Size && at != nil {
			if at.Size > 1<<20 {
				return fmt.Errorf("size %d out of the store's range", at.Size)
			}
			sz := int(at.Size)
			f.mu.Lock()
			if sz <= len(f.data) {
				f.data = f.data[:sz]
			} else {
				f.data = append(f.data, make([]byte, sz-len(f.data))...)
			}
			f.mu.Unlock()
		}
		return nil
	case "Rename", "PosixRename":
		f := s.files[r.Filepath]
		if f == nil {
			return os.ErrNotExist
		}
		if r.Method == "Rename" && s.files[r.Target] != nil {
			return os.ErrExist
		}
		delete(s.files, r.Filepath)
		s.files[r.Target] = f
		return nil
	case "Rmdir", "Remove":
		if s.files[r.Filepath] == nil {
			return os.ErrNotExist
		}
		delete(s.files, r.Filepath)
		return nil
	case "Mkdir":
		if s.files[r.Filepath] != nil {
			return os.ErrExist
		}
		s.files[r.Filepath] = &vfFile{isDir: true, mode: os.ModeDir | 0o755, mtime: s.Now}
		return nil
	case "Link":
		f := s.files[r.Filepath]
		if f == nil {
			return os.ErrNotExist
		}
		s.files[r.Target] = f
		return nil
	case "Symlink":
		s.files[r.Target] = &vfFile{link: r.Filepath, mtime: s.Now}
		return nil
	}
	return fmt.Errorf("unsupported method %s", r.Method)
}

func (h vfHBase) Filelist(r *Request) (ListerAt, error) {
	s := h.s
	r = s.req(r)
	s.record(vfCall{Iface: "FileList", Method: r.Method, Path: r.Filepath})
	if s.ListErr != nil {
		if err := s.ListErr(r.Method, r.Filepath); err != nil {
			return nil, err
		}
	}
	s.mu.Lock()
	f := s.files[r.Filepath]
	var infos []os.FileInfo
	if f != nil && r.Method == "List" {
		prefix := strings.TrimSuffix(r.Filepath, "/") + "/"
		var keys []string
		for k := range s.files {
			if k != r.Filepath && strings.HasPrefix(k, prefix) && !strings.Contains(k[len(prefix):], "/") {
				keys = append(keys, k)
			}
		}
		sort.Strings(keys)
		for _, k := range keys {
			infos = append(infos, vfStoreInfo{baseName(k), s.files[k]})
		}
	}
	s.mu.Unlock()
	if f == nil {
		return nil, os.ErrNotExist
	}
	switch r.Method {
	case "List":
		if !f.isDir {
			return nil, fmt.Errorf("not a directory: %s", r.Filepath)
		}
		o := s.newObj(f, r.Filepath, "list", r)
		o.list = infos
		return o, nil
	case "Stat", "Readlink":
		o := s.newObj(f, r.Filepath, "stat", r)
		if r.Method == "Readlink" {
			o.list = []os.FileInfo{vfStoreInfo{f.link, f}}
		} else {
			o.list = []os.FileInfo{vfStoreInfo{baseName(r.Filepath), f}}
		}
		return o, nil
	}
	return nil, fmt.Errorf("unsupported method %s", r.Method)
}

// optional interfaces ------------------------------------------------------------

type vfHOpenFile struct{ vfHBase }

func (h vfHOpenFile) OpenFile(r *Request) (WriterAtReaderAt, error) {
	o, err := h.open(r, "OpenFile", "open")
	if err != nil {
		return nil, err
	}
	return o, nil
}

type vfHCmdAll struct{ vfHBase }

func (h vfHCmdAll) PosixRename(r *Request) error {
	r = h.s.req(r)
	h.s.record(vfCall{Iface: "PosixRename", Method: r.Method, Path: r.Filepath, Target: r.Target})
	if h.s.CmdErr != nil {
		if err := h.s.CmdErr(r.Method, r.Filepath); err != nil {
			return err
		}
	}
	s := h.s
	s.mu.Lock()
	defer s.mu.Unlock()
	f := s.files[r.Filepath]
	if f == nil {
		return os.ErrNotExist
	}
	delete(s.files, r.Filepath)
	s.files[r.Target] = f
	return nil
}

func (h vfHCmdAll) StatVFS(r *Request) (*StatVFS, error) {
	r = h.s.req(r)
	h.s.record(vfCall{Iface: "StatVFS", Method: r.Method, Path: r.Filepath})
	if h.s.CmdErr != nil {
		if err := h.s.CmdErr(r.Method, r.Filepath); err != nil {
			return nil, err
		}
	}
	if h.s.SharedReplies {
		h.s.mu.Lock()
		defer h.s.mu.Unlock()
		if h.s.sharedVFS == nil {
			h.s.sharedVFS = &StatVFS{ID: 4242, Bsize: 4096, Frsize: 4096, Blocks: 1000, Bfree: 500, Bavail: 400, Files: 99, Ffree: 88, Favail: 77, Fsid: 5, Flag: 1, Namemax: 255}
		}
		return h.s.sharedVFS, nil
	}
	// (a handler that fills every exported field, e.g. by passing on what an upstream Client.StatVFS returned: the ID is not its to choose)
	return &StatVFS{ID: 4242, Bsize: 4096, Frsize: 4096, Blocks: 1000, Bfree: 500, Bavail: 400, Files: 99, Ffree: 88, Favail: 77, Fsid: 5, Flag: 1, Namemax: 255}, nil
}

type vfHListAll struct{ vfHBase }

func (h vfHListAll) Lstat(r *Request) (ListerAt, error) {
	r = h.s.req(r)
	h.s.record(vfCall{Iface: "Lstat", Method: r.Method, Path: r.Filepath})
	if h.s.ListErr != nil {
		if err := h.s.ListErr(r.Method, r.Filepath); err != nil {
			return nil, err
		}
	}
	h.s.mu.Lock()
	f := h.s.files[r.Filepath]
	h.s.mu.Unlock()
	if f == nil {
		return nil, os.ErrNotExist
	}
	o := h.s.newObj(f, r.Filepath, "stat", r)
	o.list = []os.FileInfo{vfStoreInfo{baseName(r.Filepath), f}}
	return o, nil
}

func (h vfHListAll) RealPath(p string) (string, error) {
	h.s.record(vfCall{Iface: "RealPath", Path: p})
	if h.s.ListErr != nil {
		if err := h.s.ListErr("RealPath", p); err != nil {
			return "", err
		}
	}
	return "/real/" + p, nil
}

func (h vfHListAll) Readlink(p string) (string, error) {
	h.s.record(vfCall{Iface: "Readlink", Path: p})
	if h.s.ListErr != nil {
		if err := h.s.ListErr("Readlink", p); err != nil {
			return "", err
		}
	}
	h.s.mu.Lock()
	f := h.s.files[p]
	h.s.mu.Unlock()
	if f == nil {
		return "", os.ErrNotExist
	}
	return f.link, nil
}

type vfHListLegacy struct{ vfHBase }

func (h vfHListLegacy) RealPath(p string) string {
	h.s.record(vfCall{Iface: "RealPath", Path: p})
	return "/legacy/" + p
}

type vfHandlerOpt struct {
	OpenFile bool // FilePut implements OpenFileWriter
	CmdAll   bool // FileCmd implements PosixRename + StatVFS
	ListAll  bool // FileList implements Lstat + RealPath + Readlink
	Legacy   bool // FileList implements the legacy RealPath
}

func (s *vfStore) Handlers(o vfHandlerOpt) Handlers {
	b := vfHBase{s}
	h := Handlers{FileGet: b, FilePut: b, FileCmd: b, FileList: b}
	if o.OpenFile {
		h.FilePut = vfHOpenFile{b}
	}
	if o.CmdAll {
		h.FileCmd = vfHCmdAll{b}
	}
	if o.ListAll {
		h.FileList = vfHListAll{b}
	} else if o.Legacy {
		h.FileList = vfHListLegacy{b}
	}
	return h
}
