//go:build verif

package sftp

// Systems under test (both servers, the client) on vfConn transports, and the raw
// pipelining driver.

import (
	"fmt"
	"io"
	"sync"
	"time"
)

type vfKind int

const (
	vfOS vfKind = iota // os-backed Server
	vfRS               // handler-based RequestServer
)

func (k vfKind) String() string {
	if k == vfOS {
		return "Server"
	}
	return "RequestServer"
}

type vfSrvCfg struct {
	Kind     vfKind
	Alloc    bool
	ReadOnly bool
	WorkDir  string
	StartDir string
	MaxTx    uint32
	H        Handlers
	// AllocOpt, AllocOptRS: option VALUES to use for the allocator instead of fresh WithAllocator() /
	// WithRSAllocator() calls (an embedder builds its option list once and applies it to every connection)
	AllocOpt   ServerOption
	AllocOptRS RequestServerOption
	// PacketCount: the server's packet counter before Serve starts (a session that has already handled that many packets)
	PacketCount uint32
	// AllocTwice: the allocator option is given twice (options are applied in order; giving one twice is legal)
	AllocTwice bool
	// Debug (os-backed server): WithDebug(Debug)
	Debug io.Writer
	// BeforeServe, if set, runs after the server value has been constructed and before Serve is started
	BeforeServe func()
}

func (c vfSrvCfg) String() string {
	return fmt.Sprintf("%v/alloc=%v", c.Kind, c.Alloc)
}

type vfSrv struct {
	cfg  vfSrvCfg
	os   *Server
	rs   *RequestServer
	done chan struct{}
	err  error
	end  *vfEnd
}

// vfServe builds the server on the given end and runs Serve in a goroutine.
func vfServe(cfg vfSrvCfg, e *vfEnd) (*vfSrv, error) {
	s := &vfSrv{cfg: cfg, done: make(chan struct{}), end: e}
	switch cfg.Kind {
	case vfOS:
		var opts []ServerOption
		if cfg.Alloc && cfg.AllocOpt != nil {
			opts = append(opts, cfg.AllocOpt)
		} else if cfg.Alloc {
			opts = append(opts, WithAllocator())
		}
		if cfg.Alloc && cfg.AllocTwice {
			opts = append(opts, opts[len(opts)-1], WithAllocator())
		}
		if cfg.ReadOnly {
			opts = append(opts, ReadOnly())
		}
		if cfg.WorkDir != "" {
			opts = append(opts, WithServerWorkingDirectory(cfg.WorkDir))
		}
		if cfg.MaxTx != 0 {
			opts = append(opts, WithMaxTxPacket(cfg.MaxTx))
		}
		if cfg.Debug != nil {
			opts = append(opts, WithDebug(cfg.Debug))
		}
		srv, err := NewServer(e, opts...)
		if err != nil {
			return nil, err
		}
		s.os = srv
		if cfg.PacketCount != 0 {
			srv.pktMgr.packetCount = cfg.PacketCount
		}
		if cfg.BeforeServe != nil {
			cfg.BeforeServe()
		}
		go func() {
			s.err = srv.Serve()
			close(s.done)
		}()
	case vfRS:
		var opts []RequestServerOption
		if cfg.Alloc && cfg.AllocOptRS != nil {
			opts = append(opts, cfg.AllocOptRS)
		} else if cfg.Alloc {
			opts = append(opts, WithRSAllocator())
		}
		if cfg.Alloc && cfg.AllocTwice {
			opts = append(opts, opts[len(opts)-1], WithRSAllocator())
		}
		if cfg.StartDir != "" {
			opts = append(opts, WithStartDirectory(cfg.StartDir))
		}
		if cfg.MaxTx != 0 {
			opts = append(opts, WithRSMaxTxPacket(cfg.MaxTx))
		}
		srv := NewRequestServer(e, cfg.H, opts...)
		s.rs = srv
		if cfg.PacketCount != 0 {
			srv.pktMgr.packetCount = cfg.PacketCount
		}
		if cfg.BeforeServe != nil {
			cfg.BeforeServe()
		}
		go func() {
			s.err = srv.Serve()
			close(s.done)
		}()
	}
	return s, nil
}

func (s *vfSrv) Done() <-chan struct{} { return s.done }

func (s *vfSrv) pktMgr() *packetManager {
	if s.os != nil {
		return s.os.pktMgr
	}
	return s.rs.pktMgr
}

// connAlloc: the allocator the receiving side of the connection draws its pages from
func (s *vfSrv) connAlloc() *allocator {
	if s.os != nil {
		return s.os.conn.alloc
	}
	return s.rs.conn.alloc
}

func (s *vfSrv) alloc() *allocator {
	if s.os != nil {
		return s.os.pktMgr.alloc
	}
	return s.rs.pktMgr.alloc
}

// vfClient creates a client on the given end (does the INIT/VERSION handshake).
func vfNewClient(e *vfEnd, opts ...ClientOption) (*Client, error) {
	return NewClientPipe(e, e, opts...)
}

// vfSession is a connected client + server pair.
type vfSession struct {
	C    *Client
	S    *vfSrv
	Ctl  vfConnCtl
	cEnd *vfEnd
	sEnd *vfEnd
}

func vfConnect(cfg vfSrvCfg, po vfPipeOpts, opts ...ClientOption) (*vfSession, error) {
	ce, se := vfPipe(po)
	srv, err := vfServe(cfg, se)
	if err != nil {
		return nil, err
	}
	c, err := vfNewClient(ce, opts...)
	if err != nil {
		ce.Close()
		se.Close()
		return nil, err
	}
	return &vfSession{C: c, S: srv, Ctl: vfCtl(ce), cEnd: ce, sEnd: se}, nil
}

// Close shuts the session down (client first, like a real disconnect) and waits
// for Serve to return; it reports a problem as a string ("" = fine).
func (s *vfSession) Close() string {
	d := vfGo(func() { s.C.Close() })
	if w, dump := vfAwait(d, 60*time.Second); w != vfDone {
		return fmt.Sprintf("Client.Close did not return (%v)\n%s", w, vfTrim(dump, 3000))
	}
	if w, dump := vfAwait(s.S.done, 60*time.Second); w != vfDone {
		return fmt.Sprintf("Serve did not return after the client closed (%v)\n%s", w, vfTrim(dump, 3000))
	}
	return ""
}

// ---- raw pipelining driver ------------------------------------------------------

// vfRaw is a protocol-level client: it writes arbitrary bytes, reads response
// frames concurrently and never waits unless asked to.
type vfRaw struct {
	end *vfEnd

	mu     sync.Mutex
	cond   *sync.Cond
	frames [][]byte // response bodies (type + payload) in arrival order
	eof    bool
	rerr   error
	taken  int
	rdone  chan struct{}
}

func vfNewRaw(e *vfEnd) *vfRaw {
	r := &vfRaw{end: e, rdone: make(chan struct{})}
	r.cond = sync.NewCond(&r.mu)
	go r.reader()
	return r
}

func (r *vfRaw) reader() {
	defer close(r.rdone)
	var fr vfFramer
	buf := make([]byte, 64*1024)
	for {
		n, err := r.end.Read(buf)
		if n > 0 {
			fs := fr.Feed(buf[:n])
			r.mu.Lock()
			r.frames = append(r.frames, fs...)
			r.cond.Broadcast()
			r.mu.Unlock()
		}
		if err != nil {
			r.mu.Lock()
			r.eof = true
			r.rerr = err
			r.cond.Broadcast()
			r.mu.Unlock()
			return
		}
	}
}

// Send writes raw bytes (one Write call).
func (r *vfRaw) Send(b []byte) error {
	_, err := r.end.Write(b)
	return err
}

func (r *vfRaw) SendPkts(ps ...vfPkt) error {
	var b []byte
	for _, p := range ps {
		b = append(b, p.Frame()...)
	}
	return r.Send(b)
}

// Count returns the number of response frames received so far.
func (r *vfRaw) Count() int {
	r.mu.Lock()
	defer r.mu.Unlock()
	return len(r.frames)
}

// WaitCount waits until n response frames have arrived in total (or the stream
// ended). It returns vfDone if they have, vfStuck if the process is quiescent
// without them.
func (r *vfRaw) WaitCount(n int, limit time.Duration) (vfWait, string) {
	d := vfGo(func() {
		r.mu.Lock()
		for len(r.frames) < n && !r.eof {
			r.cond.Wait()
		}
		r.mu.Unlock()
	})
	w, dump := vfAwait(d, limit)
	if w != vfDone {
		// release the waiter goroutine
		r.mu.Lock()
		r.eof = true
		r.cond.Broadcast()
		r.mu.Unlock()
		<-d
	}
	return w, dump
}

// WaitEOF waits for the server->client stream to end.
func (r *vfRaw) WaitEOF(limit time.Duration) (vfWait, string) {
	return vfAwait(r.rdone, limit)
}

// All returns all response frame bodies received so far.
func (r *vfRaw) All() [][]byte {
	r.mu.Lock()
	defer r.mu.Unlock()
	return append([][]byte(nil), r.frames...)
}

// Next returns the response bodies that arrived since the previous call.
func (r *vfRaw) Next() [][]byte {
	r.mu.Lock()
	defer r.mu.Unlock()
	out := append([][]byte(nil), r.frames[r.taken:]...)
	r.taken = len(r.frames)
	return out
}

// Phase sends the packets back-to-back and waits for one response each.
func (r *vfRaw) Phase(limit time.Duration, ps ...vfPkt) ([]vfPkt, error) {
	base := r.Count()
	if err := r.SendPkts(ps...); err != nil {
		return nil, err
	}
	w, dump := r.WaitCount(base+len(ps), limit)
	if w != vfDone {
		return nil, fmt.Errorf("no response to %d pipelined requests (%v)\n%s", len(ps), w, vfTrim(dump, 3000))
	}
	all := r.All()
	if len(all) < base+len(ps) {
		return nil, fmt.Errorf("stream ended after %d of %d responses", len(all)-base, len(ps))
	}
	var out []vfPkt
	for _, b := range all[base : base+len(ps)] {
		p, err := vfParse(b, true)
		if err != nil {
			return out, fmt.Errorf("response does not decode: %v (% x)", err, vfTrimB(b, 64))
		}
		out = append(out, p)
	}
	r.mu.Lock()
	r.taken = base + len(ps)
	r.mu.Unlock()
	return out, nil
}

func vfTrimB(b []byte, n int) []byte {
	if len(b) > n {
		return b[:n]
	}
	return b
}

// vfRawSession: raw driver connected to a server; does the INIT handshake.
type vfRawSession struct {
	R    *vfRaw
	S    *vfSrv
	Ctl  vfConnCtl
	cEnd *vfEnd
	sEnd *vfEnd
}

func vfRawConnect(cfg vfSrvCfg, po vfPipeOpts, handshake bool) (*vfRawSession, error) {
	ce, se := vfPipe(po)
	srv, err := vfServe(cfg, se)
	if err != nil {
		return nil, err
	}
	rs := &vfRawSession{R: vfNewRaw(ce), S: srv, Ctl: vfCtl(ce), cEnd: ce, sEnd: se}
	if handshake {
		resp, err := rs.R.Phase(60*time.Second, vfPkt{Type: rfInit, Version: 3})
		if err != nil {
			return nil, err
		}
		if len(resp) != 1 || resp[0].Type != rfVersion {
			return nil, fmt.Errorf("bad handshake reply %v", resp)
		}
	}
	return rs, nil
}

// End closes the client->server direction (EOF) and waits for Serve to return.
func (s *vfRawSession) End(limit time.Duration) string {
	s.cEnd.CloseWrite()
	if w, dump := vfAwait(s.S.done, limit); w != vfDone {
		return fmt.Sprintf("Serve did not return after EOF on its input (%v)\n%s", w, vfTrim(dump, 4000))
	}
	// Serve returned; release the raw reader as well
	s.sEnd.Close()
	s.cEnd.Close()
	<-s.R.rdone
	return ""
}

// vfSink is a writer for diagnostics nobody reads (safe for concurrent use, counts the bytes).
type vfSink struct {
	mu sync.Mutex
	n  int64
}

func (s *vfSink) Write(p []byte) (int, error) {
	s.mu.Lock()
	s.n += int64(len(p))
	s.mu.Unlock()
	return len(p), nil
}
