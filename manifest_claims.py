HOOK_COMMITS = ["c4cdae3"]
RM = "runtime monitoring"
claim("C17", "exploration", RM + ": exhaustive table sweeps + host-truth differential (os twin) over real client/server executions",
      "Exhaustive over the finite domains (2^16 wire words, 28672 os.FileModes, 4096 chmod values, 32 setstat flag subsets) and one object per file kind the host can create; long names compared on seeded entries. Held on everything executed; values outside those domains are not claimed.",
      "Trusts package os / the Linux kernel as ground truth, the harness's independent POSIX table and reference codec; runs as root.")
