#!/bin/bash
# NOTE: seedcheck/seedbatch/seedcross work on a copy of the COMMITTED tree of /repo (git archive HEAD), so they can run beside tools/seeded_all.sh, which patches the working tree of /repo in place.
# tools/seeded_all.sh [tier] — applies every stored seeded change to /repo in turn, runs the check of its property, reverts.
# Prints one line per seed: detected (check exit 1) or MISSED. /repo must be clean.
TIER=${1:-quick}
cd "$(dirname "$0")/.."
if [ -n "$(git -C /repo status --porcelain)" ]; then echo "/repo is not clean"; exit 2; fi
for d in seeded/*/; do
  name=$(basename "$d"); id=$(python3 -c "import json;m=json.load(open('$d/meta.json'));print(m.get('check_with',m['property']))")
  git -C /repo apply "$PWD/${d}patch.diff" || { echo "$name: patch does not apply"; continue; }
  out=$(./check "$id" --tier "$TIER" 2>&1); rc=$?
  git -C /repo checkout -- .
  first=$(echo "$out" | grep -a "key=" | head -1 | cut -c1-160)
  if [ $rc -eq 1 ]; then echo "$name: detected by $id ($first)"; else echo "$name: MISSED by $id rc=$rc"; fi
done
git checkout -- evidence 2>/dev/null
