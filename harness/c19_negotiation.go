//go:build verif

package sftp

// C19 — Version and extension negotiation is truthful.

import (
	"bytes"
	"fmt"
	"os"
	"path/filepath"
	"reflect"
	"runtime"
	"strings"
	"testing"
	"time"
)

func TestVerifC19(t *testing.T) {
	vfMain(t, vfCheck{
		ID: "C19", Level: "exploration",
		Rule:        "unit0: handshake replies from a scripted peer: versions {0,1,2,3,4,2^31,2^32-1,random}, every other packet type in place of VERSION, a valid VERSION with an extension list cut at every byte (re-framed and as stream EOF), arbitrary extension lists; unit1: all 16 ordered subsets of the supported extension names through SetSFTPExtensions, invalid names at every position, VERSION bytes of both servers; unit2+: extended requests with advertised, near-miss, empty, long and random names followed by an ordinary request. A class is (sub-check, case).",
		Assumptions: []string{"sftpExtensions is a package-level variable: the harness changes it only between sessions"},
		Units: func(tier vfTier, seed uint64) int {
			if tier == vfThorough {
				return 2 + 600
			}
			return 2 + 2
		},
		Shards: func(tier vfTier) int {
			if tier == vfThorough {
				return 8
			}
			return 4
		},
		Floors: map[string]int64{"handshakes": 300, "ordered_subsets": 16, "extended_names": 100, "truncation_offsets": 40},
		Run:    c19Run,
	})
}

func c19Run(u *vfUnit) {
	switch u.Index {
	case 0:
		c19Handshakes(u)
	case 1:
		c19Config(u)
	default:
		c19Names(u)
	}
}

// c19Try runs NewClientPipe against a peer that answers INIT with the given bytes
// (and then optionally ends its output). It checks the universal oracles and returns the client (nil on failure).
func c19Try(u *vfUnit, label string, reply []byte, closeAfter bool, wantOK bool, exts [][2]string) {
	u.Eval("handshake/" + label)
	u.Count("handshakes", 1)
	base := vfGoBaseline()
	ce, se := vfPipe(vfPipeOpts{})
	peerSawEOF := make(chan struct{})
	go func() {
		// minimal peer: read the INIT frame, send the reply, then watch for EOF
		var fr vfFramer
		buf := make([]byte, 4096)
		sent := false
		for {
			n, err := se.Read(buf)
			if n > 0 && !sent && len(fr.Feed(buf[:n])) > 0 {
				sent = true
				se.Write(reply)
				if closeAfter {
					se.CloseWrite()
				}
			}
			if err != nil {
				close(peerSawEOF)
				return
			}
		}
	}()
	var c *Client
	var err error
	var pan any
	done := vfGo(func() {
		defer func() { pan = recover() }()
		c, err = NewClientPipe(ce, ce)
	})
	w := map[string]any{"case": label, "reply_hex": fmt.Sprintf("%x", vfTrimB(reply, 300)), "close_after": closeAfter}
	if res, dump := vfAwait(done, 60*time.Second); res != vfDone {
		if res == vfStuck && !closeAfter && !wantOK {
			// the peer keeps the stream open after an incomplete frame: waiting for more bytes is legitimate
			ce.Close()
			se.Close()
			<-done
			<-peerSawEOF
			u.Count("handshake_waits_for_more_bytes", 1)
			return
		}
		u.Violation("handshake-hang:"+label, fmt.Sprintf("NewClientPipe did not return (%v) for handshake reply %s\n%s", res, label, vfTrim(dump, 2500)), w)
		ce.Close()
		se.Close()
		return
	}
	if pan != nil {
		u.Violation("handshake-panic:"+label, fmt.Sprintf("NewClientPipe panicked on handshake reply %s: %v", label, pan), w)
		se.Close()
		ce.Close()
		return
	}
	if (err == nil) != wantOK {
		u.Violation("handshake-verdict:"+label, fmt.Sprintf("handshake reply %s: NewClientPipe returned err=%v, expected success=%v", label, err, wantOK), w)
	}
	if err == nil {
		// reported extensions == advertised
		adv := map[string][]string{}
		for _, e := range exts {
			adv[e[0]] = append(adv[e[0]], e[1])
		}
		for name, datas := range adv {
			got, ok := c.HasExtension(name)
			match := false
			for _, d := range datas {
				if d == got {
					match = true
				}
			}
			if !ok || !match {
				u.Violation("extension-missing:"+label, fmt.Sprintf("advertised extension %q=%q reported as (%q,%v)", vfTrim(name, 40), datas, vfTrim(got, 40), ok), w)
			}
		}
		for name := range c.ext {
			if _, ok := adv[name]; !ok {
				u.Violation("extension-invented:"+label, fmt.Sprintf("client reports extension %q that was not advertised", vfTrim(name, 40)), w)
			}
		}
		for _, probe := range []string{"", "fsync@openssh.com", "hardlink@openssh.com", "x", "statvfs@openssh.co"} {
			if _, ok := adv[probe]; !ok {
				if _, has := c.HasExtension(probe); has {
					u.Violation("extension-invented:"+label, fmt.Sprintf("HasExtension(%q) true although not advertised", probe), w)
				}
			}
		}
		cd := vfGo(func() { c.Close() })
		if res, dump := vfAwait(cd, 60*time.Second); res != vfDone {
			u.Violation("handshake-close-hang:"+label, "Client.Close did not return after a successful handshake\n"+vfTrim(dump, 2000), w)
		}
	} else {
		// failure must close the writer: the peer sees EOF
		writerOpen := true
		for spin := 0; spin < 5000 && writerOpen; spin++ {
			// (the close travels through the peer's goroutine: give it its turn before looking)
			select {
			case <-peerSawEOF:
				writerOpen = false
			default:
				runtime.Gosched()
			}
		}
		if writerOpen && !u.Budget("writer-open", 4) {
			// already reported several times in this unit; each confirmation costs a stuck-state window
		} else if res, dump := vfAwait(peerSawEOF, 60*time.Second); res != vfDone {
			u.Violation("handshake-writer-open:"+label, fmt.Sprintf("construction failed (%v) but the writer was not closed: the peer never sees EOF (%v)\n%s", err, res, vfTrim(dump, 1500)), w)
		}
	}
	se.Close()
	ce.Close()
	<-peerSawEOF
	if leaks := base.Leaks(); len(leaks) > 0 {
		u.Violation("handshake-goroutine-leak:"+label, fmt.Sprintf("%d goroutine(s) of the package survive handshake %s:\n%s", len(leaks), label, vfTrim(strings.Join(leaks, "\n\n"), 2500)), w)
	}
}

func c19Handshakes(u *vfUnit) {
	r := u.Rng
	exts := [][2]string{{"posix-rename@openssh.com", "1"}, {"statvfs@openssh.com", "2"}, {"fsync@openssh.com", "1"}, {"x", ""}}
	// versions
	versions := []uint32{0, 1, 2, 3, 4, 5, 6, 1 << 31, 1<<32 - 1, 3 << 8, 3 << 24, 0x03000003}
	for i := 0; i < 40; i++ {
		versions = append(versions, r.Uint32())
	}
	for _, v := range versions {
		u.SetAdd("versions", fmt.Sprint(v))
		for _, withExt := range []bool{false, true} {
			p := vfPkt{Type: rfVersion, Version: v}
			if withExt {
				p.Exts = exts
			}
			c19Try(u, fmt.Sprintf("version=%d/ext=%v", v, withExt), p.Frame(), false, v == 3, p.Exts)
		}
	}
	// the version number is what counts, whatever the extension list claims about versions
	// (names other protocols and later drafts use: "versions", "supported", "newline", "vendor-id" ...)
	claims := [][][2]string{{{"versions", "3"}}, {{"versions", "2,3,4,5,6"}}, {{"versions", "3,4,5,6"}}, {{"version", "3"}}, {{"supported-versions", "3"}}, {{"3", "3"}},
		{{"supported", "\x00\x00\x00\x03"}}, {{"vendor-id", "x"}, {"versions", "3"}}, {{"newline", "\n"}, {"versions", "13"}}}
	for _, v := range []uint32{0, 1, 2, 4, 5, 6, 1 << 31, 1<<32 - 1} {
		for ci, cl := range claims {
			p := vfPkt{Type: rfVersion, Version: v, Exts: cl}
			c19Try(u, fmt.Sprintf("version=%d/claim=%d", v, ci), p.Frame(), false, false, cl)
		}
	}
	for ci, cl := range claims {
		p := vfPkt{Type: rfVersion, Version: 3, Exts: cl}
		c19Try(u, fmt.Sprintf("version=3/claim=%d", ci), p.Frame(), false, true, cl)
	}
	// wrong type carrying a well-formed version-3 body
	body := vfPkt{Type: rfVersion, Version: 3, Exts: exts}.Body()
	for t := 0; t < 256; t++ {
		if t == rfVersion {
			continue
		}
		b := append([]byte(nil), body...)
		b[0] = byte(t)
		c19Try(u, fmt.Sprintf("type=%d", t), vfFrame(b), false, false, nil)
		// the same type with the bodies that packet type would have in a session (a STATUS saying OK, a HANDLE, ...):
		// whatever it says, it is not a VERSION packet
		for bi, wb := range [][]byte{
			vfPkt{Type: byte(t), ID: 0, Code: 0, Msg: "", Lang: ""}.bodyAs(rfStatus),
			vfPkt{Type: byte(t), ID: 0, Code: 0, Msg: "OK", Lang: "en"}.bodyAs(rfStatus),
			vfPkt{Type: byte(t), ID: 3, Code: 0}.bodyAs(rfStatus),
			vfPkt{Type: byte(t), ID: 0, Handle: "h"}.bodyAs(rfHandle),
			{byte(t), 0, 0, 0, 0, 0, 0, 0, 0},
			{byte(t)},
		} {
			if t == rfStatus || t == rfHandle || t == rfData || t == rfAttrs || t == rfName || t == rfInit || t%64 == 7 {
				c19Try(u, fmt.Sprintf("type=%d/body=%d", t, bi), vfFrame(wb), false, false, nil)
			}
		}
	}
	// truncation at every byte: re-framed (well-framed but short body) and stream EOF
	full := vfFrame(body)
	for k := 0; k <= len(body); k++ {
		u.Count("truncation_offsets", 1)
		cut := body[:k]
		_, perr := vfParse(cut, true)
		wantOK := k >= 5 && perr == nil
		var pexts [][2]string
		if wantOK {
			p, _ := vfParse(cut, true)
			pexts = p.Exts
		}
		if k > 0 {
			c19Try(u, fmt.Sprintf("reframed-cut@%d", k), vfFrame(cut), false, wantOK, pexts)
		}
	}
	for k := 0; k < len(full); k++ {
		c19Try(u, fmt.Sprintf("stream-eof@%d", k), full[:k], true, false, nil)
	}
	c19Try(u, "stream-complete-then-eof", full, true, true, exts)
	// frame-level hostility
	c19Try(u, "zero-length-frame", []byte{0, 0, 0, 0}, false, false, nil)
	c19Try(u, "oversized-frame", []byte{0xff, 0xff, 0xff, 0xff, 2, 0, 0, 0, 3}, false, false, nil)
	c19Try(u, "length-1-frame", []byte{0, 0, 0, 1, 2}, false, false, nil)
	// arbitrary extension lists
	for i := 0; i < 60; i++ {
		var l [][2]string
		for j := r.Intn(12); j > 0; j-- {
			name := vfGenStr(r)
			if len(name) > 300 {
				name = name[:300]
			}
			data := vfGenStr(r)
			if len(data) > 20 {
				data = data[:20]
			}
			l = append(l, [2]string{name, data})
		}
		if i%5 == 0 && len(l) > 0 {
			l = append(l, [2]string{l[0][0], "dup"}) // duplicate name
		}
		c19Try(u, fmt.Sprintf("extlist-%d", i), vfPkt{Type: rfVersion, Version: 3, Exts: l}.Frame(), false, true, l)
	}
	// extension list with a pair whose second string is missing / overruns
	w := &rfW{}
	w.u8(rfVersion)
	w.u32(3)
	w.str("name-only")
	c19Try(u, "ext-name-without-data", vfFrame(w.b), false, false, nil)
	w.u32(1000)
	c19Try(u, "ext-data-overrun", vfFrame(w.b), false, false, nil)
	u.Sample(map[string]any{"example": "peer answers INIT with VERSION version=4 + 4 extension pairs; NewClientPipe must fail, close its writer, leave no goroutine"})
}

var c19Supported = [][2]string{{"hardlink@openssh.com", "1"}, {"posix-rename@openssh.com", "1"}, {"statvfs@openssh.com", "2"}}

// bodyAs renders p with the payload layout of packet type `as` and p's own type byte.
func (p vfPkt) bodyAs(as byte) []byte {
	q := p
	q.Type = as
	b := q.Body()
	b[0] = p.Type
	return b
}

// c19InitExts: extension pairs the raw driver puts into its INIT packet (what the client says about itself does not
// change what the server is configured to advertise)
var c19InitExts [][2]string

// c19VersionBytes connects a raw driver to a fresh server and returns the VERSION reply body.
func c19VersionBytes(u *vfUnit, kind vfKind) []byte { return c19VersionBytesLate(u, kind, nil) }

// c19VersionBytesLate: late (optional) runs between the construction of the server and the start of Serve.
func c19VersionBytesLate(u *vfUnit, kind vfKind, late func()) []byte {
	cfg := vfSrvCfg{Kind: kind, BeforeServe: late}
	if kind == vfRS {
		cfg.H = InMemHandler()
	}
	rs, err := vfRawConnect(cfg, vfPipeOpts{}, false)
	if err != nil {
		u.Inconclusive("connect: %v", err)
		return nil
	}
	init := vfPkt{Type: rfInit, Version: 3}
	if c19InitExts != nil {
		init.Exts = c19InitExts
	}
	if err := rs.R.SendPkts(init); err != nil {
		u.Violation("version-send", err.Error(), nil)
	}
	var body []byte
	if w, dump := rs.R.WaitCount(1, 60*time.Second); w != vfDone {
		u.Violation("version-missing:"+kind.String(), "no reply to INIT\n"+vfTrim(dump, 2000), nil)
	} else if all := rs.R.All(); len(all) > 0 {
		body = all[0]
	}
	if msg := rs.End(60 * time.Second); msg != "" {
		u.Violation("version-serve-end", msg, nil)
	}
	return body
}

func c19Config(u *vfUnit) {
	defer func() { sftpExtensions = supportedSFTPExtensions }()
	// all ordered subsets (permutations of every subset) of the three names
	var lists [][]int
	var rec func(cur []int, used int)
	rec = func(cur []int, used int) {
		lists = append(lists, append([]int(nil), cur...))
		for i := 0; i < 3; i++ {
			if used&(1<<i) == 0 {
				rec(append(cur, i), used|1<<i)
			}
		}
	}
	rec(nil, 0)
	invalid := []string{"", "hardlink@openssh.co", "HARDLINK@openssh.com", "fsync@openssh.com", "hardlink@openssh.com ", "bogus", "statvfs@openssh.com\x00"}
	for _, l := range lists {
		var names []string
		var want [][2]string
		for _, i := range l {
			names = append(names, c19Supported[i][0])
			want = append(want, c19Supported[i])
		}
		label := "cfg[" + strings.Join(names, ",") + "]"
		u.Eval(label)
		u.Count("ordered_subsets", 1)
		if err := SetSFTPExtensions(names...); err != nil {
			u.Violation("config-rejected:"+label, fmt.Sprintf("SetSFTPExtensions(%v) failed: %v", names, err), nil)
			continue
		}
		wantBody := vfPkt{Type: rfVersion, Version: 3, Exts: want}.Body()
		for _, kind := range []vfKind{vfOS, vfRS} {
			got := c19VersionBytes(u, kind)
			if !bytes.Equal(got, wantBody) {
				u.Violation("version-bytes:"+kind.String(), fmt.Sprintf("configured %v: %s sent VERSION %x, expected %x", names, kind, vfTrimB(got, 200), vfTrimB(wantBody, 200)), map[string]any{"configured": names})
			}
			// an INIT that names extensions itself, with other data than the server's, with the same, and unknown ones
			for _, ie := range [][][2]string{
				{{"statvfs@openssh.com", "1"}, {"hardlink@openssh.com", "2"}, {"posix-rename@openssh.com", ""}},
				{{"statvfs@openssh.com", "2"}, {"hardlink@openssh.com", "1"}},
				{{"fsync@openssh.com", "1"}, {"vendor@example.com", "9"}},
			} {
				c19InitExts = ie
				got = c19VersionBytes(u, kind)
				c19InitExts = nil
				u.Count("inits_naming_extensions", 1)
				if !bytes.Equal(got, wantBody) {
					u.Violation("version-bytes-after-init-with-extensions:"+kind.String(), fmt.Sprintf("configured %v, INIT carrying %v: %s sent VERSION %x, expected %x", names, ie, kind, vfTrimB(got, 200), vfTrimB(wantBody, 200)), map[string]any{"configured": names})
				}
			}
			// the same list configured after the server value was constructed, before its session starts: what
			// counts is what is configured when the handshake happens
			SetSFTPExtensions("statvfs@openssh.com")
			if len(names) == 1 && names[0] == "statvfs@openssh.com" {
				SetSFTPExtensions("hardlink@openssh.com")
			}
			got = c19VersionBytesLate(u, kind, func() { SetSFTPExtensions(names...) })
			u.Count("configurations_made_after_construction", 1)
			if !bytes.Equal(got, wantBody) {
				u.Violation("version-bytes-configured-after-construction:"+kind.String(), fmt.Sprintf("configured %v after constructing the server and before Serve: %s sent VERSION %x, expected %x", names, kind, vfTrimB(got, 200), vfTrimB(wantBody, 200)), map[string]any{"configured": names})
			}
		}
		// an invalid request (bad name at each position) changes nothing
		for _, bad := range invalid {
			for pos := 0; pos <= len(names); pos++ {
				req := append(append(append([]string(nil), names[:pos]...), bad), names[pos:]...)
				u.Eval("invalid-config")
				if err := SetSFTPExtensions(req...); err == nil {
					u.Violation("config-invalid-accepted", fmt.Sprintf("SetSFTPExtensions(%q) succeeded", req), nil)
					SetSFTPExtensions(names...)
					continue
				}
			}
		}
		// also: a fully different but partly invalid list must not leak its valid prefix
		SetSFTPExtensions("statvfs@openssh.com", "bogus")
		for _, kind := range []vfKind{vfOS, vfRS} {
			got := c19VersionBytes(u, kind)
			if !bytes.Equal(got, wantBody) {
				u.Violation("config-invalid-changed:"+kind.String(), fmt.Sprintf("after rejected SetSFTPExtensions calls, %s sent VERSION %x, expected unchanged %x", kind, vfTrimB(got, 200), vfTrimB(wantBody, 200)), map[string]any{"configured": names})
			}
		}
	}
	// a name given more than once: the set of advertised names is still the set of configured names, and an
	// invalid name behind a repeated one is still an invalid request
	for _, req := range [][]string{
		{"hardlink@openssh.com", "hardlink@openssh.com", "posix-rename@openssh.com"},
		{"statvfs@openssh.com", "posix-rename@openssh.com", "statvfs@openssh.com", "hardlink@openssh.com"},
		{"posix-rename@openssh.com", "posix-rename@openssh.com"},
	} {
		u.Eval("config-with-repeats")
		if err := SetSFTPExtensions(req...); err != nil {
			continue // refusing repeats is a choice; then nothing must have changed (checked by the next round of the loop)
		}
		wantSet := map[string]bool{}
		for _, n := range req {
			wantSet[n] = true
		}
		for _, kind := range []vfKind{vfOS, vfRS} {
			got, perr := vfParse(c19VersionBytes(u, kind), true)
			gotSet := map[string]bool{}
			for _, e := range got.Exts {
				gotSet[e[0]] = true
			}
			if perr != nil || !reflect.DeepEqual(gotSet, wantSet) {
				u.Violation("config-repeats:"+kind.String(), fmt.Sprintf("SetSFTPExtensions(%q) accepted; %s advertises %v (%v)", req, kind, got.Exts, perr), nil)
			}
		}
		bad := append(append([]string(nil), req...), "nosuch@example.com")
		before := c19VersionBytes(u, vfOS)
		if err := SetSFTPExtensions(bad...); err == nil {
			u.Violation("config-invalid-accepted", fmt.Sprintf("SetSFTPExtensions(%q) succeeded", bad), nil)
		} else if after := c19VersionBytes(u, vfOS); !bytes.Equal(before, after) {
			u.Violation("config-invalid-changed:Server", fmt.Sprintf("rejected SetSFTPExtensions(%q) changed the VERSION packet", bad), nil)
		}
	}
	// a real client sees exactly the configured extensions
	SetSFTPExtensions("statvfs@openssh.com", "hardlink@openssh.com")
	sess, err := vfConnect(vfSrvCfg{Kind: vfOS}, vfPipeOpts{})
	if err == nil {
		if len(sess.C.ext) != 2 {
			u.Violation("client-sees-config", fmt.Sprintf("client reports %v for configured statvfs,hardlink", sess.C.ext), nil)
		}
		if d, ok := sess.C.HasExtension("statvfs@openssh.com"); !ok || d != "2" {
			u.Violation("client-sees-config", fmt.Sprintf("statvfs reported (%q,%v)", d, ok), nil)
		}
		if _, ok := sess.C.HasExtension("posix-rename@openssh.com"); ok {
			u.Violation("client-sees-config", "posix-rename reported although not configured", nil)
		}
		sess.Close()
	}
	c19LiveSession(u)
	c19ClientKeepsReport(u)
	u.Sample(map[string]any{"ordered_subsets": len(lists), "invalid_names": invalid})
}

// c19LiveSession: what a session was promised at its handshake is served for as long as it lives, whatever the
// process-wide configuration is changed to in the meantime (a new list only concerns sessions that start later).
func c19LiveSession(u *vfUnit) {
	defer SetSFTPExtensions("hardlink@openssh.com", "posix-rename@openssh.com", "statvfs@openssh.com")
	for _, kind := range []vfKind{vfOS, vfRS} {
		SetSFTPExtensions("hardlink@openssh.com", "posix-rename@openssh.com", "statvfs@openssh.com")
		cfg := vfSrvCfg{Kind: kind}
		root := "/"
		if kind == vfRS {
			st := vfNewStore()
			st.Put("/f", []byte("x"))
			cfg.H = st.Handlers(vfHandlerOpt{OpenFile: true, CmdAll: true, ListAll: true})
		} else {
			root = filepath.Join(u.TempDir(), "live") + "/"
			os.MkdirAll(root, 0o755)
			os.WriteFile(root+"f", []byte("x"), 0o644)
		}
		sess, err := vfConnect(cfg, vfPipeOpts{})
		if err != nil {
			u.Inconclusive("connect: %v", err)
			return
		}
		label := kind.String() + "/configuration-changed-during-a-session"
		try := func(step string, err error) {
			u.Count("extension_requests_after_reconfiguration", 1)
			if err != nil {
				u.Violation("advertised-extension-not-served:"+kind.String(), fmt.Sprintf("%s: %s on a session that was promised all three extensions: %v", label, step, err), nil)
			}
		}
		_, err = sess.C.StatVFS(root)
		try("StatVFS before any change", err)
		SetSFTPExtensions("statvfs@openssh.com")
		try("Link after the list was reduced to statvfs", sess.C.Link(root+"f", root+"hl"))
		try("PosixRename after the list was reduced to statvfs", sess.C.PosixRename(root+"hl", root+"hl2"))
		SetSFTPExtensions()
		_, err = sess.C.StatVFS(root)
		try("StatVFS after the list was emptied", err)
		for _, name := range []string{"hardlink@openssh.com", "posix-rename@openssh.com", "statvfs@openssh.com"} {
			if _, ok := sess.C.HasExtension(name); !ok {
				u.Violation("client-report-changed:"+kind.String(), fmt.Sprintf("%s: the client no longer reports %s, which this session's VERSION packet advertised", label, name), nil)
			}
		}
		if msg := sess.Close(); msg != "" {
			u.Violation("session-close", label+": "+msg, nil)
		}
	}
}

// c19ClientKeepsReport: what the client reports is what the VERSION packet said, also after requests that use the
// extensions were refused by the peer.
func c19ClientKeepsReport(u *vfUnit) {
	adv := [][2]string{{"fsync@openssh.com", "1"}, {"posix-rename@openssh.com", "1"}, {"hardlink@openssh.com", "1"}, {"statvfs@openssh.com", "2"}, {"vendor@example.com", "7"}}
	for _, code := range []uint32{rfUnsupported, rfFailure, rfPermDenied, rfOK} {
		peer := &vfPeer{
			VersionFrame: vfPkt{Type: rfVersion, Version: 3, Exts: adv}.Frame(),
			Handler: func(req vfPkt, raw []byte) []byte {
				switch req.Type {
				case rfOpen:
					return vfPkt{Type: rfHandle, ID: req.ID, Handle: "h"}.Frame()
				case rfExtended:
					return vfStatusFrame(req.ID, code, "refused")
				}
				return vfStatusFrame(req.ID, rfOK, "")
			},
		}
		c, p, _, ce, err := vfPeerClient(peer, vfPipeOpts{})
		if err != nil {
			u.Inconclusive("connect: %v", err)
			return
		}
		label := fmt.Sprintf("peer answers extended requests with status %d", code)
		f, _ := c.Open("/x")
		for round := 0; round < 2; round++ {
			if f != nil {
				f.Sync()
			}
			c.PosixRename("/a", "/b")
			c.Link("/a", "/c")
			c.StatVFS("/")
			for _, e := range adv {
				u.Count("client_reports_checked", 1)
				if d, ok := c.HasExtension(e[0]); !ok || d != e[1] {
					u.Violation("client-report-changed:after-refusal", fmt.Sprintf("%s: after round %d the client reports (%q, %v) for %s, the VERSION packet said %q", label, round, d, ok, e[0], e[1]), nil)
				}
			}
		}
		if f != nil {
			f.Close()
		}
		p.Stop()
		vfAwait(vfGo(func() { c.Close() }), 60*time.Second)
		ce.Close()
	}
}

func c19Names(u *vfUnit) {
	r := u.Rng
	dir := u.TempDir()
	os.WriteFile(filepath.Join(dir, "a"), []byte("x"), 0o644)
	for ki, kind := range []vfKind{vfOS, vfRS, vfOS} {
		cfg := vfSrvCfg{Kind: kind, ReadOnly: ki == 2} // the third pass: a read-only os-backed server
		if kind == vfRS {
			cfg.H = InMemHandler()
		}
		rs, err := vfRawConnect(cfg, vfPipeOpts{}, true)
		if err != nil {
			u.Inconclusive("connect: %v", err)
			return
		}
		id := uint32(1)
		probe := func(label string) bool {
			id++
			p := "/"
			resp, err := rs.R.Phase(60*time.Second, vfPkt{Type: rfStat, ID: id, Path: p})
			if err != nil || len(resp) != 1 || resp[0].Type != rfAttrs || resp[0].ID != id {
				u.Violation("session-ended-after:"+kind.String()+":"+label, fmt.Sprintf("after extended request %s the next STAT was not served: %v %v", label, resp, err), nil)
				return false
			}
			return true
		}
		if kind == vfOS && !cfg.ReadOnly {
			// every advertised extension is served
			for i, e := range c19Supported {
				id++
				p := vfPkt{Type: rfExtended, ID: id, Ext: e[0], Path: filepath.Join(dir, "a"), Path2: filepath.Join(dir, fmt.Sprintf("new%d", i))}
				if e[0] == "statvfs@openssh.com" {
					p.Path = dir
				}
				resp, err := rs.R.Phase(60*time.Second, p)
				u.Eval("advertised/" + e[0])
				if err != nil || len(resp) != 1 {
					u.Violation("advertised-no-reply:"+e[0], fmt.Sprintf("%v %v", resp, err), nil)
					break
				}
				if resp[0].Type == rfStatus && resp[0].Code == rfUnsupported {
					u.Violation("advertised-unsupported:"+e[0], fmt.Sprintf("advertised extension %s answered OP_UNSUPPORTED", e[0]), nil)
				}
				if e[0] == "statvfs@openssh.com" && resp[0].Type != rfExtendedReply {
					u.Violation("advertised-not-served:"+e[0], fmt.Sprintf("statvfs answered %s", resp[0]), nil)
				}
				if e[0] != "statvfs@openssh.com" && !(resp[0].Type == rfStatus && resp[0].Code == rfOK) {
					u.Violation("advertised-not-served:"+e[0], fmt.Sprintf("%s answered %s", e[0], resp[0]), nil)
				}
			}
		}
		names := []string{"", "x", "hardlink@openssh.co", "hardlink@openssh.comm", "HARDLINK@openssh.com", " hardlink@openssh.com", "posix-rename@openssh.com\x00", "statvfs@openssh.com/", "fsync@openssh.com", "fstatvfs@openssh.com", "copy-data", "limits@openssh.com", "expand-path@openssh.com", strings.Repeat("n", 5000), strings.Repeat("z", 200000)}
		for i := 0; i < 60; i++ {
			names = append(names, string(r.Bytes(1+r.Intn(60))))
		}
		for _, n := range names {
			if kind == vfRS && (n == "hardlink@openssh.com" || n == "posix-rename@openssh.com" || n == "statvfs@openssh.com") {
				continue
			}
			label := fmt.Sprintf("%q", vfTrim(n, 30))
			u.Eval("unknown/" + kind.String() + "/" + label)
			u.Count("extended_names", 1)
			id++
			var data []byte
			switch r.Intn(3) {
			case 1:
				w := &rfW{}
				w.str("/a")
				w.str("/b")
				data = w.b
			case 2:
				data = r.Bytes(r.Intn(100))
			}
			resp, err := rs.R.Phase(60*time.Second, vfPkt{Type: rfExtended, ID: id, Ext: n, ExtData: data})
			if err != nil || len(resp) != 1 {
				u.Violation("unknown-ext-no-reply:"+kind.String(), fmt.Sprintf("extended request %s: %v %v", label, resp, err), map[string]any{"name": n})
				break
			}
			if !(resp[0].Type == rfStatus && resp[0].Code == rfUnsupported && resp[0].ID == id) {
				u.Violation(fmt.Sprintf("unknown-ext-answer:%v:readonly=%v", kind, cfg.ReadOnly), fmt.Sprintf("extended request with unknown name %s answered %s instead of OP_UNSUPPORTED (read-only server: %v)", label, resp[0], cfg.ReadOnly), map[string]any{"name": n})
			}
			if !probe(label) {
				break
			}
		}
		if msg := rs.End(60 * time.Second); msg != "" {
			u.Violation("names-serve-end", msg, nil)
		}
	}
	u.Sample(map[string]any{"example": "EXTENDED name=\"hardlink@openssh.co\" -> STATUS OP_UNSUPPORTED, then STAT / still served"})
}
