//go:build verif

package sftp

// Scripted peer: a fake SFTP server speaking through the reference codec. It
// computes replies in request-arrival order (so every reply value is known) and
// may deliver them in a seeded permutation, mutated, or not at all.

import (
	"runtime"
	"sync"
	"time"
)

type vfPeerStats struct {
	Requests     int
	Replies      int
	OutOfOrder   int // replies delivered while an earlier-arrived request was still unanswered
	MaxHeld      int
	Permutations map[string]bool
}

type vfHeld struct {
	seq   int
	id    uint32
	reply []byte
}

type vfPeer struct {
	end *vfEnd
	// Version reply to INIT (raw frame bytes); nil = standard version 3 without extensions.
	VersionFrame []byte
	// Handler computes the raw reply frame(s) for a request, in arrival order. nil reply = stay silent.
	Handler func(req vfPkt, raw []byte) []byte
	// HoldK > 0: hold replies and release them in a seeded random order; a reply is
	// released when HoldK are held, or all (shuffled) when the client stops sending.
	HoldK int
	Rng   *vfRand
	// OnRequest is called for every request frame body before the handler (monitors).
	OnRequest func(req vfPkt, raw []byte, perr error)
	// OnReply is called just before the reply to request id is written.
	OnReply func(id uint32)

	mu       sync.Mutex
	cond     *sync.Cond
	held     []vfHeld
	seq      int
	answered map[int]bool
	lowest   int // lowest seq not yet answered
	stats    vfPeerStats
	rdEOF    bool
	done     chan struct{}
	wdone    chan struct{}
	werr     error
}

func vfStartPeer(e *vfEnd, p *vfPeer) *vfPeer {
	p.end = e
	p.cond = sync.NewCond(&p.mu)
	p.done = make(chan struct{})
	p.wdone = make(chan struct{})
	p.answered = map[int]bool{}
	p.stats.Permutations = map[string]bool{}
	if p.Rng == nil {
		p.Rng = vfNewRand(1)
	}
	go p.reader()
	if p.HoldK > 0 {
		go p.responder()
	} else {
		close(p.wdone)
	}
	return p
}

func (p *vfPeer) reader() {
	defer close(p.done)
	var fr vfFramer
	buf := make([]byte, 64*1024)
	for {
		n, err := p.end.Read(buf)
		if n > 0 {
			for _, body := range fr.Feed(buf[:n]) {
				p.handle(body)
			}
		}
		if err != nil || fr.Bad {
			p.mu.Lock()
			p.rdEOF = true
			p.cond.Broadcast()
			p.mu.Unlock()
			return
		}
	}
}

func (p *vfPeer) handle(body []byte) {
	req, perr := vfParse(body, false)
	if p.OnRequest != nil {
		p.OnRequest(req, body, perr)
	}
	if perr == nil && req.Type == rfInit {
		v := p.VersionFrame
		if v == nil {
			v = vfPkt{Type: rfVersion, Version: 3}.Frame()
		}
		p.end.Write(v)
		return
	}
	var reply []byte
	if p.Handler != nil {
		reply = p.Handler(req, body)
	}
	p.mu.Lock()
	p.stats.Requests++
	seq := p.seq
	p.seq++
	if reply == nil {
		p.answered[seq] = true
		p.advance()
		p.mu.Unlock()
		return
	}
	if p.HoldK <= 0 {
		p.mu.Unlock()
		if p.OnReply != nil {
			p.OnReply(req.ID)
		}
		p.end.Write(reply)
		p.mu.Lock()
		p.stats.Replies++
		p.answered[seq] = true
		p.advance()
		p.mu.Unlock()
		return
	}
	p.held = append(p.held, vfHeld{seq: seq, id: req.ID, reply: reply})
	if len(p.held) > p.stats.MaxHeld {
		p.stats.MaxHeld = len(p.held)
	}
	p.cond.Broadcast()
	p.mu.Unlock()
}

func (p *vfPeer) advance() {
	for p.answered[p.lowest] {
		delete(p.answered, p.lowest)
		p.lowest++
	}
}

func (p *vfPeer) responder() {
	defer close(p.wdone)
	idleSpins := 0
	for {
		p.mu.Lock()
		for len(p.held) == 0 && !p.rdEOF {
			p.cond.Wait()
		}
		if len(p.held) == 0 && p.rdEOF {
			p.mu.Unlock()
			return
		}
		release := 0
		if len(p.held) >= p.HoldK || p.rdEOF {
			release = 1
			if p.rdEOF {
				release = len(p.held)
			}
		} else if p.end.ReaderIdle() {
			idleSpins++
			if idleSpins > 3 {
				release = len(p.held)
			}
		} else {
			idleSpins = 0
		}
		var out []vfHeld
		for i := 0; i < release && len(p.held) > 0; i++ {
			j := p.Rng.Intn(len(p.held))
			out = append(out, p.held[j])
			p.held = append(p.held[:j], p.held[j+1:]...)
		}
		p.mu.Unlock()
		if len(out) == 0 {
			// the client is still sending (or about to): yield; a short sleep keeps the
			// process visibly active for the stuck detector while replies are held
			runtime.Gosched()
			time.Sleep(30 * time.Microsecond)
			continue
		}
		idleSpins = 0
		for _, h := range out {
			if p.OnReply != nil {
				p.OnReply(h.id)
			}
			_, err := p.end.Write(h.reply)
			p.mu.Lock()
			p.stats.Replies++
			if h.seq != p.lowest {
				p.stats.OutOfOrder++
			}
			p.answered[h.seq] = true
			p.advance()
			if err != nil {
				p.werr = err
			}
			p.mu.Unlock()
		}
	}
}

func (p *vfPeer) Stats() vfPeerStats {
	p.mu.Lock()
	defer p.mu.Unlock()
	return p.stats
}

// Stop closes the peer's end and waits for its goroutines.
func (p *vfPeer) Stop() {
	p.end.Close()
	<-p.done
	p.mu.Lock()
	p.rdEOF = true
	p.cond.Broadcast()
	p.mu.Unlock()
	<-p.wdone
}

// vfStatusFrame is a convenience for handlers.
func vfStatusFrame(id uint32, code uint32, msg string) []byte {
	return vfPkt{Type: rfStatus, ID: id, Code: code, Msg: msg, Lang: ""}.Frame()
}

// vfPeerClient connects a real Client to a scripted peer.
func vfPeerClient(p *vfPeer, po vfPipeOpts, opts ...ClientOption) (*Client, *vfPeer, vfConnCtl, *vfEnd, error) {
	ce, se := vfPipe(po)
	vfStartPeer(se, p)
	c, err := vfNewClient(ce, opts...)
	if err != nil {
		ce.Close()
		p.Stop()
		return nil, p, vfCtl(ce), ce, err
	}
	return c, p, vfCtl(ce), ce, nil
}
