//go:build verif

package sftp

// Core of the runtime-monitoring harness: check registration, unit sharding over
// child processes (crash isolation + journal attribution), evidence and result
// files, known findings, race-log parsing.

import (
	"bufio"
	"encoding/json"
	"fmt"
	"hash/fnv"
	"os"
	"os/exec"
	"path/filepath"
	"regexp"
	"runtime"
	rtdebug "runtime/debug"
	"sort"
	"strconv"
	"strings"
	"sync"
	"syscall"
	"testing"
	"time"
)

type vfTier int

const (
	vfQuick vfTier = iota
	vfThorough
)

func (t vfTier) String() string {
	if t == vfThorough {
		return "thorough"
	}
	return "quick"
}

// vfCheck describes one property's monitor workload.
type vfCheck struct {
	ID          string
	Level       string // evidence level (exploration | fault_enumeration | ...)
	Rule        string // how cases are generated and what makes one distinct / non-trivial
	Assumptions []string
	Exhaustive  bool
	// Units returns the number of independent work units for (tier, seed).
	Units func(tier vfTier, seed uint64) int
	// Run executes unit u.Index.
	Run func(u *vfUnit)
	// Shards returns how many child processes to use (default 1 quick / 8 thorough).
	Shards func(tier vfTier) int
	// Floors: counter name -> minimum the merged run must reach, else inconclusive.
	Floors map[string]int64
	// UnitLimit is the wall-clock watchdog per child process (inconclusive if it fires).
	ChildLimit func(tier vfTier) time.Duration
	// NoRaceScan disables the race-log scan (plain builds).
	Explanation string
}

type vfViolation struct {
	Key     string `json:"key"`
	What    string `json:"what"`
	Witness any    `json:"witness,omitempty"`
	Unit    int    `json:"unit"`
}

// vfUnitResult is what a child reports per completed unit (one JSON line).
type vfUnitResult struct {
	Unit         int                 `json:"unit"`
	Evaluations  int64               `json:"evaluations"`
	Classes      []uint64            `json:"classes"`
	Counters     map[string]int64    `json:"counters,omitempty"`
	Maxes        map[string]int64    `json:"maxes,omitempty"`
	Sets         map[string][]string `json:"sets,omitempty"`
	Samples      []any               `json:"samples,omitempty"`
	Violations   []vfViolation       `json:"violations,omitempty"`
	Inconclusive []string            `json:"inconclusive,omitempty"`
	Done         bool                `json:"done"`
	Final        bool                `json:"final,omitempty"`
}

type vfUnit struct {
	Index int
	Tier  vfTier
	Seed  uint64
	Rng   *vfRand
	ID    string

	mu        sync.Mutex
	res       vfUnitResult
	classes   map[uint64]struct{}
	sets      map[string]map[string]struct{}
	journal   *os.File
	tmp       string
	t         *testing.T
	skipCases map[int]bool
	budget    map[string]int
}

// Case journals case idx of this unit (so that a process death is attributed to
// it) and reports whether it should be executed (false: it killed an earlier child
// and is skipped on this re-run).
func (u *vfUnit) Case(idx int, key string, format string, a ...any) bool {
	if u.skipCases[idx] {
		return false
	}
	if u.journal != nil {
		s := fmt.Sprintf(format, a...)
		if len(s) > 6000 {
			s = s[:6000]
		}
		line, _ := json.Marshal(map[string]any{"unit": u.Index, "case": idx, "key": key, "desc": s})
		u.journal.Write(append(line, '\n'))
	}
	return true
}

func vfHash(s string) uint64 {
	h := fnv.New64a()
	h.Write([]byte(s))
	return h.Sum64()
}

// Eval counts one evaluation; class is a coarse descriptor used for the
// distinct_nontrivial count (empty class = trivial, not counted as distinct).
func (u *vfUnit) Eval(class string) {
	u.mu.Lock()
	u.res.Evaluations++
	if class != "" {
		u.classes[vfHash(class)] = struct{}{}
	}
	u.mu.Unlock()
}

func (u *vfUnit) EvalN(n int64) {
	u.mu.Lock()
	u.res.Evaluations += n
	u.mu.Unlock()
}

func (u *vfUnit) Class(class string) {
	u.mu.Lock()
	u.classes[vfHash(class)] = struct{}{}
	u.mu.Unlock()
}

// Journal records what is about to be executed, so that a process death can be
// attributed to it by the parent.
func (u *vfUnit) Journal(format string, a ...any) {
	if u.journal == nil {
		return
	}
	s := fmt.Sprintf(format, a...)
	if len(s) > 4000 {
		s = s[:4000]
	}
	line, _ := json.Marshal(map[string]any{"unit": u.Index, "case": -1, "desc": s})
	u.journal.Write(append(line, '\n'))
}

func (u *vfUnit) Count(name string, n int64) {
	u.mu.Lock()
	u.res.Counters[name] += n
	u.mu.Unlock()
}

func (u *vfUnit) Max(name string, v int64) {
	u.mu.Lock()
	if cur, ok := u.res.Maxes[name]; !ok || v > cur {
		u.res.Maxes[name] = v
	}
	u.mu.Unlock()
}

// SetAdd adds a member to a named distinct set (capped per unit).
func (u *vfUnit) SetAdd(name, member string) {
	u.mu.Lock()
	m := u.sets[name]
	if m == nil {
		m = map[string]struct{}{}
		u.sets[name] = m
	}
	if len(m) < 2000 {
		m[member] = struct{}{}
	}
	u.mu.Unlock()
}

func (u *vfUnit) Sample(v any) {
	u.mu.Lock()
	if len(u.res.Samples) < 2 {
		u.res.Samples = append(u.res.Samples, v)
	}
	u.mu.Unlock()
}

func (u *vfUnit) Violation(key, what string, witness any) {
	if vfCapFired.Swap(false) {
		// the wait this report is about ended on the wall-clock cap, not on a quiescent process:
		// that decides nothing (a starved or frozen machine looks the same)
		u.Inconclusive("wall-clock cap fired, no verdict: %s: %s", key, vfTrim(what, 1500))
		return
	}
	u.mu.Lock()
	defer u.mu.Unlock()
	for _, v := range u.res.Violations {
		if v.Key == key {
			return
		}
	}
	if len(u.res.Violations) >= 40 {
		return
	}
	if len(what) > 3000 {
		what = what[:3000] + "…"
	}
	u.res.Violations = append(u.res.Violations, vfViolation{Key: key, What: what, Witness: witness, Unit: u.Index})
}

func (u *vfUnit) Inconclusive(format string, a ...any) {
	u.mu.Lock()
	if len(u.res.Inconclusive) < 10 {
		u.res.Inconclusive = append(u.res.Inconclusive, fmt.Sprintf(format, a...))
	}
	u.mu.Unlock()
}

// Budget reports whether an expensive oracle (e.g. one that ends in a stuck-state
// verdict, which costs seconds) may still be used: true for the first n calls per name.
func (u *vfUnit) Budget(name string, n int) bool {
	u.mu.Lock()
	defer u.mu.Unlock()
	if u.budget == nil {
		u.budget = map[string]int{}
	}
	u.budget[name]++
	return u.budget[name] <= n
}

// TempDir returns a per-unit scratch directory (removed when the unit ends).
func (u *vfUnit) TempDir() string {
	u.mu.Lock()
	defer u.mu.Unlock()
	if u.tmp == "" {
		base := os.Getenv("VERIF_SCRATCH")
		if base == "" {
			base = os.TempDir()
		}
		d, err := os.MkdirTemp(base, fmt.Sprintf("u%d-", u.Index))
		if err != nil {
			panic(err)
		}
		u.tmp = d
	}
	return u.tmp
}

func (u *vfUnit) finish() vfUnitResult {
	u.mu.Lock()
	defer u.mu.Unlock()
	if u.tmp != "" {
		vfChmodAll(u.tmp)
		os.RemoveAll(u.tmp)
		u.tmp = ""
	}
	u.res.Classes = u.res.Classes[:0]
	for h := range u.classes {
		u.res.Classes = append(u.res.Classes, h)
	}
	u.res.Sets = map[string][]string{}
	for k, m := range u.sets {
		for s := range m {
			u.res.Sets[k] = append(u.res.Sets[k], s)
		}
	}
	u.res.Done = true
	return u.res
}

func vfChmodAll(dir string) {
	filepath.Walk(dir, func(p string, info os.FileInfo, err error) error {
		if err == nil && info.IsDir() {
			os.Chmod(p, 0o755)
		}
		return nil
	})
}

func newUnit(c *vfCheck, idx int, tier vfTier, seed uint64, journal *os.File, t *testing.T) *vfUnit {
	return &vfUnit{
		Index: idx, Tier: tier, Seed: seed, ID: c.ID,
		Rng:     vfNewRand(seed*1000003 + uint64(idx)*7919 + 17),
		res:     vfUnitResult{Unit: idx, Counters: map[string]int64{}, Maxes: map[string]int64{}},
		classes: map[uint64]struct{}{},
		sets:    map[string]map[string]struct{}{},
		journal: journal,
		t:       t,
	}
}

// runUnit executes a unit, converting a panic in the calling goroutine into a violation.
func runUnit(c *vfCheck, u *vfUnit) (res vfUnitResult) {
	defer func() {
		if r := recover(); r != nil {
			st := string(rtdebug.Stack())
			u.Violation("panic-in-unit:"+vfPanicSig(fmt.Sprint(r), st), fmt.Sprintf("panic while running unit %d: %v\n%s", u.Index, r, vfTrim(st, 2500)), map[string]any{"unit": u.Index})
		}
		res = u.finish()
	}()
	c.Run(u)
	return
}

func vfTrim(s string, n int) string {
	if len(s) > n {
		return s[:n] + "…"
	}
	return s
}

var vfFrameRe = regexp.MustCompile(`github\.com/pkg/sftp[^\s(]*\.([A-Za-z0-9_.()*]+)\(`)

// vfPanicSig derives a stable signature from a panic message and stack: the first
// non-harness frame of the package.
func vfPanicSig(msg, stack string) string {
	sig := ""
	for _, m := range vfFrameRe.FindAllStringSubmatch(stack, -1) {
		fn := m[1]
		if strings.Contains(fn, "vf") || strings.Contains(fn, "TestVerif") || strings.HasPrefix(fn, "runUnit") || strings.HasPrefix(fn, "newUnit") {
			continue
		}
		sig = fn
		break
	}
	msg = regexp.MustCompile(`[0-9]+`).ReplaceAllString(msg, "N")
	if len(msg) > 80 {
		msg = msg[:80]
	}
	return sig + ":" + msg
}

// ---------------------------------------------------------------------------

func vfEnvTier() vfTier {
	if os.Getenv("VERIF_TIER") == "thorough" {
		return vfThorough
	}
	return vfQuick
}

func vfEnvSeed() uint64 {
	n, err := strconv.ParseInt(os.Getenv("VERIF_SEED"), 10, 64)
	if err != nil {
		return 1
	}
	return uint64(n)
}

// vfMain is the entry point of every TestVerifCNN.
func vfMain(t *testing.T, c vfCheck) {
	if os.Getenv("VERIF_ID") != c.ID {
		t.Skip("not selected")
	}
	if os.Getenv("VERIF_CHILD") != "" {
		vfChildMain(t, &c)
		return
	}
	vfParentMain(t, &c)
}

type vfWitnessFile struct {
	Property string `json:"property"`
	Key      string `json:"key"`
	What     string `json:"what"`
	Tier     string `json:"tier"`
	Seed     uint64 `json:"seed"`
	Unit     int    `json:"unit"`
	Witness  any    `json:"witness,omitempty"`
}

func vfChildMain(t *testing.T, c *vfCheck) {
	tier, seed := vfEnvTier(), vfEnvSeed()
	var shard, shards int
	fmt.Sscanf(os.Getenv("VERIF_CHILD"), "%d/%d", &shard, &shards)
	out, err := os.OpenFile(os.Getenv("VERIF_CHILD_OUT"), os.O_CREATE|os.O_APPEND|os.O_WRONLY, 0o644)
	if err != nil {
		panic(err)
	}
	defer out.Close()
	journal, err := os.OpenFile(os.Getenv("VERIF_CHILD_OUT")+".journal", os.O_CREATE|os.O_APPEND|os.O_WRONLY, 0o644)
	if err != nil {
		panic(err)
	}
	defer journal.Close()
	skip := map[int]bool{}
	for _, s := range strings.Split(os.Getenv("VERIF_SKIP"), ",") {
		if n, err := strconv.Atoi(s); err == nil {
			skip[n] = true
		}
	}
	skipCases := map[int]map[int]bool{}
	for _, s := range strings.Split(os.Getenv("VERIF_SKIP_CASES"), ",") {
		var a, b int
		if n, _ := fmt.Sscanf(s, "%d:%d", &a, &b); n == 2 {
			if skipCases[a] == nil {
				skipCases[a] = map[int]bool{}
			}
			skipCases[a][b] = true
		}
	}
	only := -1
	if s := os.Getenv("VERIF_ONLY_UNIT"); s != "" {
		only, _ = strconv.Atoi(s)
	}
	n := c.Units(tier, seed)
	poisoned := false
	for i := 0; i < n; i++ {
		if only >= 0 {
			if i != only {
				continue
			}
		} else if i%shards != shard || skip[i] {
			continue
		}
		u := newUnit(c, i, tier, seed, journal, t)
		u.skipCases = skipCases[i]
		u.Journal("unit-start")
		var res vfUnitResult
		if poisoned {
			// an earlier unit of this process reported calls that never return: goroutines of the
			// package are left behind and package-level state may be affected. The verdict is already
			// a violation; later units only get a bounded chance to add to it.
			ch := make(chan vfUnitResult, 1)
			go func() { ch <- runUnit(c, u) }()
			select {
			case res = <-ch:
			case <-time.After(3 * time.Minute):
				out.Write([]byte("{\"unit\":-1,\"final\":true}\n"))
				return
			}
		} else {
			res = runUnit(c, u)
		}
		for _, v := range res.Violations {
			if strings.Contains(v.Key, "hang") || strings.Contains(v.Key, "stuck") || strings.Contains(v.Key, "wedged") {
				poisoned = true
			}
		}
		line, err := json.Marshal(res)
		if err != nil {
			line, _ = json.Marshal(vfUnitResult{Unit: i, Done: true, Violations: []vfViolation{{Key: "harness-marshal", What: err.Error(), Unit: i}}})
		}
		out.Write(append(line, '\n'))
	}
	out.Write([]byte("{\"unit\":-1,\"final\":true}\n"))
}

type vfKnown struct {
	Status   string `json:"status"` // known | fixed
	Property string `json:"property"`
	Key      string `json:"key"`
	What     string `json:"what"`
	Commit   string `json:"commit,omitempty"`
}

func vfLoadKnown(dir, id string) map[string]vfKnown {
	m := map[string]vfKnown{}
	f, err := os.Open(filepath.Join(dir, "known_findings.jsonl"))
	if err != nil {
		return m
	}
	defer f.Close()
	sc := bufio.NewScanner(f)
	sc.Buffer(make([]byte, 1<<20), 1<<20)
	for sc.Scan() {
		var k vfKnown
		if json.Unmarshal(sc.Bytes(), &k) == nil && k.Property == id && k.Status == "known" {
			m[k.Key] = k
		}
	}
	return m
}

type vfMerged struct {
	evaluations  int64
	classes      map[uint64]struct{}
	counters     map[string]int64
	maxes        map[string]int64
	sets         map[string]map[string]struct{}
	samples      []any
	violations   []vfViolation
	inconclusive []string
	unitsDone    map[int]bool
}

func (m *vfMerged) add(r vfUnitResult) {
	if m.unitsDone[r.Unit] {
		return
	}
	m.unitsDone[r.Unit] = true
	m.evaluations += r.Evaluations
	for _, h := range r.Classes {
		m.classes[h] = struct{}{}
	}
	for k, v := range r.Counters {
		m.counters[k] += v
	}
	for k, v := range r.Maxes {
		if cur, ok := m.maxes[k]; !ok || v > cur {
			m.maxes[k] = v
		}
	}
	for k, l := range r.Sets {
		s := m.sets[k]
		if s == nil {
			s = map[string]struct{}{}
			m.sets[k] = s
		}
		for _, x := range l {
			s[x] = struct{}{}
		}
	}
	if len(m.samples) < 6 {
		for _, s := range r.Samples {
			if len(m.samples) < 6 {
				m.samples = append(m.samples, s)
			}
		}
	}
	for _, v := range r.Violations {
		dup := false
		for _, e := range m.violations {
			if e.Key == v.Key {
				dup = true
			}
		}
		if !dup {
			m.violations = append(m.violations, v)
		}
	}
	m.inconclusive = append(m.inconclusive, r.Inconclusive...)
}

func vfParentMain(t *testing.T, c *vfCheck) {
	start := time.Now()
	tier, seed := vfEnvTier(), vfEnvSeed()
	dir := os.Getenv("VERIF_DIR")
	scratch := os.Getenv("VERIF_SCRATCH")
	if dir == "" || scratch == "" {
		t.Fatal("VERIF_DIR / VERIF_SCRATCH not set (run through ./check)")
	}
	nUnits := c.Units(tier, seed)
	shards := 1
	if c.Shards != nil {
		shards = c.Shards(tier)
	} else if tier == vfThorough {
		shards = 8
	}
	if shards > nUnits {
		shards = nUnits
	}
	if shards < 1 {
		shards = 1
	}
	limit := 20 * time.Minute
	if tier == vfThorough {
		limit = 5 * time.Hour
	}
	if c.ChildLimit != nil {
		limit = c.ChildLimit(tier)
	}

	merged := &vfMerged{classes: map[uint64]struct{}{}, counters: map[string]int64{}, maxes: map[string]int64{},
		sets: map[string]map[string]struct{}{}, unitsDone: map[int]bool{}}

	onlyUnit := -1
	if rp := os.Getenv("VERIF_REPLAY"); rp != "" {
		var w vfWitnessFile
		b, err := os.ReadFile(rp)
		if err != nil || json.Unmarshal(b, &w) != nil {
			t.Fatalf("cannot read replay file %s", rp)
		}
		onlyUnit = w.Unit
		seed = w.Seed
		os.Setenv("VERIF_SEED", strconv.FormatUint(seed, 10))
		if w.Tier == "thorough" {
			tier = vfThorough
		} else {
			tier = vfQuick
		}
		os.Setenv("VERIF_TIER", tier.String())
		shards = 1
	}

	var mu sync.Mutex
	var wg sync.WaitGroup
	crashes := 0
	for s := 0; s < shards; s++ {
		wg.Add(1)
		go func(s int) {
			defer wg.Done()
			skip := []string{}
			skipCases := []string{}
			perUnitCrashes := map[int]int{}
			for attempt := 0; attempt < 400; attempt++ {
				out := filepath.Join(scratch, fmt.Sprintf("child-%d-%d.jsonl", s, attempt))
				logp := filepath.Join(scratch, fmt.Sprintf("child-%d-%d.log", s, attempt))
				logf, _ := os.Create(logp)
				cmd := exec.Command(os.Args[0], "-test.run", "^TestVerif"+c.ID+"$", "-test.timeout", "0")
				cmd.Dir = scratch
				cmd.Env = append(os.Environ(),
					fmt.Sprintf("VERIF_CHILD=%d/%d", s, shards),
					"VERIF_CHILD_OUT="+out,
					"VERIF_SKIP="+strings.Join(skip, ","),
					"VERIF_SKIP_CASES="+strings.Join(skipCases, ","),
					"VERIF_SEED="+strconv.FormatUint(seed, 10),
					"VERIF_TIER="+tier.String(),
					"GOTRACEBACK=all",
					fmt.Sprintf("GORACE=halt_on_error=0 exitcode=0 log_path=%s history_size=2", filepath.Join(scratch, fmt.Sprintf("race-%d-%d", s, attempt))),
				)
				if onlyUnit >= 0 {
					cmd.Env = append(cmd.Env, fmt.Sprintf("VERIF_ONLY_UNIT=%d", onlyUnit))
				}
				cmd.Stdout = logf
				cmd.Stderr = logf
				cmd.SysProcAttr = &syscall.SysProcAttr{Setpgid: true}
				err := cmd.Start()
				if err != nil {
					mu.Lock()
					merged.inconclusive = append(merged.inconclusive, "cannot start child: "+err.Error())
					mu.Unlock()
					logf.Close()
					return
				}
				done := make(chan error, 1)
				go func() { done <- cmd.Wait() }()
				timedOut := false
				select {
				case err = <-done:
				case <-time.After(limit):
					timedOut = true
					cmd.Process.Signal(syscall.SIGQUIT)
					select {
					case err = <-done:
					case <-time.After(20 * time.Second):
						syscall.Kill(-cmd.Process.Pid, syscall.SIGKILL)
						err = <-done
					}
				}
				logf.Close()
				// collect completed units
				lastDone := -1
				final := false
				if f, e := os.Open(out); e == nil {
					sc := bufio.NewScanner(f)
					sc.Buffer(make([]byte, 1<<20), 256<<20)
					for sc.Scan() {
						var r vfUnitResult
						if json.Unmarshal(sc.Bytes(), &r) == nil && r.Final {
							final = true
						} else if r.Done {
							mu.Lock()
							merged.add(r)
							mu.Unlock()
							lastDone = r.Unit
						}
					}
					f.Close()
				}
				if (err == nil || final) && !timedOut {
					// (a race-enabled test binary exits non-zero after a race report even with
					// exitcode=0 in GORACE when the testing package notices it; the work is complete)
					return
				}
				// the child died: attribute to the last journalled case
				unit, caseIdx, caseKey, desc := vfLastJournal(out + ".journal")
				logTail := vfCrashLog(logp)
				mu.Lock()
				if timedOut {
					merged.inconclusive = append(merged.inconclusive, fmt.Sprintf("child %d watchdog (%v) fired in unit %d (%s); dump kept in witness", s, limit, unit, vfTrim(desc, 200)))
					vfWriteFile(filepath.Join(dir, "replay", fmt.Sprintf("%s-watchdog-%d.txt", c.ID, s)), []byte(desc+"\n\n"+logTail))
				} else {
					crashes++
					sig := vfCrashSig(logTail)
					key := "crash:" + caseKey + ":" + sig
					merged.addViolation(vfViolation{Key: key, Unit: unit,
						What:    fmt.Sprintf("process died (%v) while executing unit %d case %q\n%s", err, unit, vfTrim(desc, 500), vfTrim(vfCrashExcerpt(logTail), 2500)),
						Witness: map[string]any{"case": desc, "case_index": caseIdx, "stderr_tail": vfTrim(vfCrashExcerpt(logTail), 6000)}})
				}
				mu.Unlock()
				_ = lastDone
				if unit < 0 || onlyUnit >= 0 || timedOut {
					return
				}
				// skip the crashed unit and everything already done, then resume
				skip = skip[:0]
				mu.Lock()
				for u := range merged.unitsDone {
					skip = append(skip, strconv.Itoa(u))
				}
				mu.Unlock()
				perUnitCrashes[unit]++
				if caseIdx >= 0 && perUnitCrashes[unit] <= 3 {
					// re-run the unit without the case that killed the process
					skipCases = append(skipCases, fmt.Sprintf("%d:%d", unit, caseIdx))
				} else {
					skip = append(skip, strconv.Itoa(unit))
					mu.Lock()
					merged.unitsDone[unit] = true
					merged.counters["units_abandoned_after_crashes"]++
					mu.Unlock()
				}
			}
		}(s)
	}
	wg.Wait()

	// race reports
	races := vfScanRaces(scratch)
	for _, r := range races {
		merged.addViolation(vfViolation{Key: "race:" + r.sig, What: "data race reported by the Go race detector\n" + vfTrim(r.text, 2500), Witness: map[string]any{"report": vfTrim(r.text, 8000)}, Unit: -1})
	}
	if os.Getenv("VERIF_RACE") == "1" {
		merged.counters["race_detector_reports"] = int64(len(races))
	}

	// coverage floors
	if onlyUnit < 0 {
		missing := 0
		for i := 0; i < nUnits; i++ {
			if !merged.unitsDone[i] {
				missing++
			}
		}
		if missing > 0 {
			merged.inconclusive = append(merged.inconclusive, fmt.Sprintf("%d of %d units did not complete", missing, nUnits))
		}
		for name, min := range c.Floors {
			got := merged.counters[name]
			if v, ok := merged.maxes[name]; ok && v > got {
				got = v
			}
			if s, ok := merged.sets[name]; ok && int64(len(s)) > got {
				got = int64(len(s))
			}
			if got < min {
				merged.inconclusive = append(merged.inconclusive, fmt.Sprintf("coverage floor not reached: %s=%d < %d (the monitors observed too little)", name, got, min))
			}
		}
	}

	// classify violations against known findings
	known := vfLoadKnown(dir, c.ID)
	type outV struct {
		Key    string `json:"key"`
		What   string `json:"what"`
		Replay string `json:"replay"`
	}
	var viol []outV
	var knownLines []string
	sort.Slice(merged.violations, func(i, j int) bool { return merged.violations[i].Key < merged.violations[j].Key })
	for _, v := range merged.violations {
		if k, ok := known[v.Key]; ok {
			knownLines = append(knownLines, fmt.Sprintf("key=%q %s", v.Key, k.What))
			continue
		}
		name := fmt.Sprintf("%s-%016x.json", c.ID, vfHash(v.Key))
		path := filepath.Join(dir, "replay", name)
		w := vfWitnessFile{Property: c.ID, Key: v.Key, What: v.What, Tier: tier.String(), Seed: seed, Unit: v.Unit, Witness: v.Witness}
		b, _ := json.MarshalIndent(w, "", " ")
		vfWriteFile(path, b)
		viol = append(viol, outV{Key: v.Key, What: "key=" + v.Key + " :: " + strings.SplitN(v.What, "\n", 2)[0], Replay: path})
	}

	// evidence
	cov := map[string]any{
		"evaluations":         merged.evaluations,
		"distinct_nontrivial": len(merged.classes),
		"rule":                c.Rule,
		"samples":             merged.samples,
		"units":               nUnits,
		"units_completed":     len(merged.unitsDone),
		"child_processes":     shards,
		"child_crashes":       crashes,
	}
	if c.Exhaustive {
		cov["exhaustive"] = true
	}
	if c.Explanation != "" {
		cov["explanation"] = c.Explanation
	}
	for k, v := range merged.counters {
		cov[k] = v
	}
	for k, v := range merged.maxes {
		cov["max_"+k] = v
	}
	for k, s := range merged.sets {
		cov["distinct_"+k] = len(s)
		var ex []string
		for x := range s {
			ex = append(ex, x)
		}
		sort.Strings(ex)
		if len(ex) > 12 {
			ex = ex[:12]
		}
		cov["examples_"+k] = ex
	}
	if len(merged.samples) == 0 {
		cov["samples"] = []any{"(no sample recorded)"}
	}
	assumptions := append([]string{}, c.Assumptions...)
	ev := map[string]any{
		"property_id":         c.ID,
		"tier":                tier.String(),
		"seed":                seed,
		"level":               c.Level,
		"coverage":            cov,
		"assumptions":         assumptions,
		"wall_s":              time.Since(start).Seconds(),
		"violations":          len(viol),
		"known_findings_seen": len(knownLines),
		"inconclusive":        merged.inconclusive,
		"go":                  runtime.Version(),
	}
	if onlyUnit < 0 {
		b, _ := json.MarshalIndent(ev, "", " ")
		os.MkdirAll(filepath.Join(dir, "evidence"), 0o755)
		vfWriteFile(filepath.Join(dir, "evidence", c.ID+".json"), b)
	}

	info := []string{fmt.Sprintf("observed: evaluations=%d distinct=%d units=%d/%d children=%d crashes=%d races=%d", merged.evaluations, len(merged.classes), len(merged.unitsDone), nUnits, shards, crashes, len(races))}
	var keys []string
	for k := range merged.counters {
		keys = append(keys, k)
	}
	sort.Strings(keys)
	var parts []string
	for _, k := range keys {
		parts = append(parts, fmt.Sprintf("%s=%d", k, merged.counters[k]))
	}
	if len(parts) > 0 {
		info = append(info, "counters: "+strings.Join(parts, " "))
	}
	res := map[string]any{"violations": viol, "known": knownLines, "inconclusive": merged.inconclusive, "info": info}
	b, _ := json.MarshalIndent(res, "", " ")
	vfWriteFile(filepath.Join(scratch, "result.json"), b)
}

func (m *vfMerged) addViolation(v vfViolation) {
	for _, e := range m.violations {
		if e.Key == v.Key {
			return
		}
	}
	m.violations = append(m.violations, v)
}

func vfWriteFile(path string, b []byte) {
	os.MkdirAll(filepath.Dir(path), 0o755)
	os.WriteFile(path, b, 0o644)
}

func vfTail(path string, n int) string {
	b, err := os.ReadFile(path)
	if err != nil {
		return ""
	}
	if len(b) > n {
		b = b[len(b)-n:]
	}
	return string(b)
}

func vfLastJournal(path string) (int, int, string, string) {
	b, err := os.ReadFile(path)
	if err != nil {
		return -1, -1, "", ""
	}
	lines := strings.Split(strings.TrimRight(string(b), "\n"), "\n")
	for i := len(lines) - 1; i >= 0; i-- {
		var j struct {
			Unit int    `json:"unit"`
			Case int    `json:"case"`
			Key  string `json:"key"`
			Desc string `json:"desc"`
		}
		if json.Unmarshal([]byte(lines[i]), &j) == nil {
			return j.Unit, j.Case, j.Key, j.Desc
		}
	}
	return -1, -1, "", ""
}

var vfPanicRe = regexp.MustCompile(`(?m)^(panic: .*|fatal error: .*)$`)

// vfCrashLog returns the child's log from the first panic / fatal error line on.
func vfCrashLog(path string) string {
	b, err := os.ReadFile(path)
	if err != nil {
		return ""
	}
	s := string(b)
	if loc := vfPanicRe.FindStringIndex(s); loc != nil {
		s = s[loc[0]:]
		if len(s) > 16000 {
			s = s[:16000]
		}
		return s
	}
	if len(s) > 12000 {
		s = s[len(s)-12000:]
	}
	return s
}

func vfCrashExcerpt(log string) string {
	loc := vfPanicRe.FindStringIndex(log)
	if loc == nil {
		if len(log) > 3000 {
			return log[len(log)-3000:]
		}
		return log
	}
	return log[loc[0]:]
}

func vfCrashSig(log string) string {
	ex := vfCrashExcerpt(log)
	first := strings.SplitN(ex, "\n", 2)[0]
	return vfPanicSig(first, ex)
}

type vfRace struct{ sig, text string }

var vfRaceFrameRe = regexp.MustCompile(`(?m)^\s+(github\.com/pkg/sftp\S*)\(\)\s*$`)

// vfScanRaces parses the race detector logs of all children, deduplicates by the
// pair of innermost package frames and keeps only reports that involve non-harness
// package code.
func vfScanRaces(scratch string) []vfRace {
	files, _ := filepath.Glob(filepath.Join(scratch, "race-*"))
	seen := map[string]bool{}
	var out []vfRace
	for _, f := range files {
		b, err := os.ReadFile(f)
		if err != nil {
			continue
		}
		for _, blk := range strings.Split(string(b), "==================") {
			if !strings.Contains(blk, "WARNING: DATA RACE") {
				continue
			}
			var frames []string
			pkgCode := false
			for _, m := range vfRaceFrameRe.FindAllStringSubmatch(blk, -1) {
				fn := m[1]
				short := fn[strings.LastIndex(fn, "/")+1:]
				if strings.Contains(short, ".vf") || strings.Contains(short, "TestVerif") || strings.Contains(short, "(*vf") {
					continue
				}
				pkgCode = true
				if len(frames) < 4 {
					frames = append(frames, short)
				}
			}
			if !pkgCode {
				// a race purely inside harness code: report it too, as a harness defect
				frames = []string{"harness-only"}
			}
			sig := strings.Join(frames, "|")
			if seen[sig] {
				continue
			}
			seen[sig] = true
			out = append(out, vfRace{sig: sig, text: strings.TrimSpace(blk)})
		}
	}
	return out
}
