//go:build verif

package sftp

// C08 — Decoding arbitrary bytes is total and bounded.
// Every decoding entry point of both codecs is fed valid encodings mutated
// systematically (every truncation point, every 4-byte window replaced by hostile
// lengths/counts, every type byte) plus random strings. Oracles: recover() and the
// child journal for panics / fatal errors, an allocation meter (bytes allocated per
// call, single goroutine), a counting reader behind the frame readers.

import (
	"bytes"
	"encoding/binary"
	"fmt"
	"io"
	"reflect"
	"runtime/metrics"
	"strings"
	"syscall"
	"testing"

	sshfx "github.com/pkg/sftp/internal/encoding/ssh/filexfer"
	"github.com/pkg/sftp/internal/encoding/ssh/filexfer/openssh"
)

func TestVerifC08(t *testing.T) {
	vfMain(t, vfCheck{
		ID: "C08", Level: "fault_enumeration",
		Rule:        "for every packet type a valid reference encoding, then every truncation point, every 4-byte window replaced by each of {0,1,n-1,n+1,2^20,2^28,2^29,2^29+1,2^30,2^31-1,2^32-1}, every type byte 0..255, plus seeded random bodies and flag words; each mutant is fed to every applicable decoding entry point of packet.go and filexfer. A class is (entry point, packet type, mutation kind).",
		Assumptions: []string{"allocation bound: bytes allocated by one decode call <= 64*len(input) + 1 MiB (affine; hostile counts are >= 2^20 so a count-driven make overshoots by >= 8 MiB)", "child processes run with RLIMIT_AS = 3 GiB so that an absurd allocation is a deterministic fatal error attributed through the journal"},
		Units: func(tier vfTier, seed uint64) int {
			if tier == vfThorough {
				return len(vfGenKinds) * 100
			}
			return len(vfGenKinds)
		},
		Shards: func(tier vfTier) int {
			if tier == vfThorough {
				return 14
			}
			return 6
		},
		Floors: map[string]int64{"decodes": 40000, "entry_points": 20, "frames_refused_long": 10, "frames_refused_zero": 10, "frames_short_body": 10},
		Run:    c08Run,
	})
}

var c08Sample = []metrics.Sample{{Name: "/gc/heap/allocs:bytes"}}

func c08Allocs() uint64 {
	metrics.Read(c08Sample)
	return c08Sample[0].Value.Uint64()
}

type c08Entry struct {
	name string
	// applies reports whether the entry point takes a frame body of this type.
	applies func(typ byte) bool
	fn      func(body []byte)
}

var c08Reg = func() bool {
	openssh.RegisterExtensionStatVFS()
	openssh.RegisterExtensionPOSIXRename()
	openssh.RegisterExtensionHardlink()
	openssh.RegisterExtensionFSync()
	openssh.RegisterExtensionFStatVFS()
	return true
}()

func c08Entries() []c08Entry {
	any_ := func(byte) bool { return true }
	isReq := func(t byte) bool { return vfIsRequest(t) && t != rfInit }
	return []c08Entry{
		{"pkg.makePacket", any_, func(b []byte) {
			pkt, err := makePacket(rxPacket{fxp(b[0]), b[1:]})
			if err == nil && pkt != nil {
				// the lazily decoded attribute blobs
				switch q := pkt.(type) {
				case *sshFxpOpenPacket:
					q.unmarshalFileStat(q.Flags)
				case *sshFxpSetstatPacket:
					q.unmarshalFileStat(q.Flags)
				case *sshFxpFsetstatPacket:
					q.unmarshalFileStat(q.Flags)
				}
			}
		}},
		{"pkg.Request.Attributes", func(t byte) bool { return t == rfSetstat || t == rfOpen }, func(b []byte) {
			pkt, _ := makePacket(rxPacket{fxp(b[0]), b[1:]})
			switch q := pkt.(type) {
			case *sshFxpSetstatPacket:
				if bb, ok := q.Attrs.([]byte); ok {
					r := &Request{Flags: q.Flags, Attrs: bb}
					r.Attributes()
					r.AttrFlags()
				}
			case *sshFxpOpenPacket:
				if bb, ok := q.Attrs.([]byte); ok {
					r := &Request{Flags: q.Flags, Attrs: bb}
					r.Attributes()
					r.Pflags()
				}
			}
		}},
		{"pkg.sshFxpDataPacket.UnmarshalBinary", func(t byte) bool { return t == rfData }, func(b []byte) {
			var q sshFxpDataPacket
			q.UnmarshalBinary(b[1:])
		}},
		{"pkg.sshFxInitPacket.UnmarshalBinary", func(t byte) bool { return t == rfInit || t == rfVersion }, func(b []byte) {
			var q sshFxInitPacket
			q.UnmarshalBinary(b[1:])
		}},
		{"pkg.unmarshalAttrs", func(t byte) bool { return t == rfAttrs }, func(b []byte) {
			if len(b) >= 5 {
				// decoding includes what callers then read from the result: every accessor is total as well
				if fs, _, err := unmarshalAttrs(b[5:]); err == nil && fs != nil {
					fs.FileMode()
					fs.ModTime()
					fs.AccessTime()
					fi := fileInfoFromStat(fs, "name")
					fi.Mode()
					fi.IsDir()
					fi.ModTime()
					fi.Size()
					_ = fi.Mode().String()
				}
			}
		}},
		{"pkg.unmarshalFileStat(anyflags)", func(t byte) bool { return t == rfAttrs }, func(b []byte) {
			if len(b) >= 9 {
				unmarshalFileStat(binary.BigEndian.Uint32(b[1:5]), b[9:])
				unmarshalFileStat(0xFFFFFFFF, b[5:])
			}
		}},
		{"pkg.unmarshalExtensionPair", func(t byte) bool { return t == rfVersion || t == rfInit }, func(b []byte) {
			if len(b) >= 5 {
				unmarshalExtensionPair(b[5:])
			}
		}},
		{"pkg.unmarshalStringSafe+ints", any_, func(b []byte) {
			unmarshalStringSafe(b)
			unmarshalUint32Safe(b)
			unmarshalUint64Safe(b)
			var id uint32
			var s string
			unmarshalIDString(b, &id, &s)
		}},
		{"pkg.validateResponse+client-decode", func(t byte) bool { return t >= 100 && t <= 110 || t == rfExtendedReply }, func(b []byte) {
			// the client validates a response in recv and then decodes it with the unchecked helpers:
			// whatever validateResponse lets through must be safe for them
			typ, data := fxp(b[0]), b[1:]
			if validateResponse(typ, data) != nil {
				return
			}
			id, rest := unmarshalUint32(data)
			switch typ {
			case sshFxpStatus:
				unmarshalStatus(id, data)
			case sshFxpHandle:
				unmarshalString(rest)
			case sshFxpData:
				l, d := unmarshalUint32(rest)
				_ = d[:l]
			case sshFxpAttrs:
				unmarshalAttrs(rest)
			case sshFxpName:
				count, d := unmarshalUint32(rest)
				for i := uint32(0); i < count; i++ {
					_, d = unmarshalString(d)
					_, d = unmarshalString(d)
					var err error
					if _, d, err = unmarshalAttrs(d); err != nil {
						break
					}
				}
			}
		}},
		{"fx.RequestPacket.UnmarshalBinary", isReq, func(b []byte) {
			var q sshfx.RequestPacket
			q.UnmarshalBinary(b)
		}},
		{"fx.RequestPacket.UnmarshalBinary(anytype)", func(t byte) bool { return !isReq(t) }, func(b []byte) {
			var q sshfx.RequestPacket
			q.UnmarshalBinary(b)
		}},
		{"fx.RawPacket.UnmarshalBinary", any_, func(b []byte) {
			var q sshfx.RawPacket
			q.UnmarshalBinary(b)
		}},
		{"fx.InitPacket.UnmarshalBinary", func(t byte) bool { return t == rfInit }, func(b []byte) {
			var q sshfx.InitPacket
			q.UnmarshalBinary(b[1:])
		}},
		{"fx.VersionPacket.UnmarshalBinary", func(t byte) bool { return t == rfVersion }, func(b []byte) {
			var q sshfx.VersionPacket
			q.UnmarshalBinary(b[1:])
		}},
		{"fx.StatusPacket.UnmarshalPacketBody", func(t byte) bool { return t == rfStatus }, func(b []byte) {
			var q sshfx.StatusPacket
			q.UnmarshalPacketBody(sshfx.NewBuffer(c08After(b, 5)))
		}},
		{"fx.HandlePacket.UnmarshalPacketBody", func(t byte) bool { return t == rfHandle }, func(b []byte) {
			var q sshfx.HandlePacket
			q.UnmarshalPacketBody(sshfx.NewBuffer(c08After(b, 5)))
		}},
		{"fx.DataPacket.UnmarshalPacketBody", func(t byte) bool { return t == rfData }, func(b []byte) {
			var q sshfx.DataPacket
			q.UnmarshalPacketBody(sshfx.NewBuffer(c08After(b, 5)))
		}},
		{"fx.NamePacket.UnmarshalPacketBody", func(t byte) bool { return t == rfName }, func(b []byte) {
			var q sshfx.NamePacket
			q.UnmarshalPacketBody(sshfx.NewBuffer(c08After(b, 5)))
		}},
		{"fx.AttrsPacket.UnmarshalPacketBody", func(t byte) bool { return t == rfAttrs }, func(b []byte) {
			var q sshfx.AttrsPacket
			q.UnmarshalPacketBody(sshfx.NewBuffer(c08After(b, 5)))
		}},
		{"fx.Attributes.UnmarshalBinary", func(t byte) bool { return t == rfAttrs }, func(b []byte) {
			var q sshfx.Attributes
			q.UnmarshalBinary(c08After(b, 5))
		}},
		{"fx.NameEntry.UnmarshalBinary", func(t byte) bool { return t == rfName }, func(b []byte) {
			var q sshfx.NameEntry
			q.UnmarshalBinary(c08After(b, 9))
		}},
		{"fx.ExtensionPair.UnmarshalBinary", func(t byte) bool { return t == rfVersion }, func(b []byte) {
			var q sshfx.ExtensionPair
			q.UnmarshalBinary(c08After(b, 5))
		}},
		{"fx.ExtendedReplyPacket+StatVFSReply", func(t byte) bool { return t == rfExtendedReply }, func(b []byte) {
			var q openssh.StatVFSExtendedReplyPacket
			q.UnmarshalPacketBody(sshfx.NewBuffer(c08After(b, 5)))
			var e sshfx.ExtendedReplyPacket
			e.UnmarshalPacketBody(sshfx.NewBuffer(c08After(b, 5)))
		}},
		{"fx.openssh.*.UnmarshalBinary", func(t byte) bool { return t == rfExtended }, func(b []byte) {
			d := c08After(b, 5)
			(&openssh.StatVFSExtendedPacket{}).UnmarshalBinary(d)
			(&openssh.FStatVFSExtendedPacket{}).UnmarshalBinary(d)
			(&openssh.POSIXRenameExtendedPacket{}).UnmarshalBinary(d)
			(&openssh.HardlinkExtendedPacket{}).UnmarshalBinary(d)
			(&openssh.FSyncExtendedPacket{}).UnmarshalBinary(d)
		}},
		{"fx.ExtendedPacket.UnmarshalPacketBody", func(t byte) bool { return t == rfExtended }, func(b []byte) {
			var q sshfx.ExtendedPacket
			q.UnmarshalPacketBody(sshfx.NewBuffer(c08After(b, 5)))
		}},
	}
}

func c08After(b []byte, n int) []byte {
	if len(b) < n {
		return nil
	}
	return append([]byte(nil), b[n:]...)
}

type c08CountReader struct {
	r io.Reader
	n int
}

func (c *c08CountReader) Read(p []byte) (int, error) {
	n, err := c.r.Read(p)
	c.n += n
	return n, err
}

var c08Hostile = []func(n uint32) uint32{
	func(n uint32) uint32 { return 0 },
	func(n uint32) uint32 { return 1 },
	func(n uint32) uint32 { return n - 1 },
	func(n uint32) uint32 { return n + 1 },
	func(n uint32) uint32 { return 1 << 20 },
	func(n uint32) uint32 { return 1<<31 - 1 },
	func(n uint32) uint32 { return 1<<32 - 1 },
	func(n uint32) uint32 { return 1 << 29 },
	func(n uint32) uint32 { return 1<<29 + 1 },
	func(n uint32) uint32 { return 1 << 30 },
	func(n uint32) uint32 { return 1 << 28 },
}
var c08HostileNames = []string{"0", "1", "n-1", "n+1", "2^20", "2^31-1", "2^32-1", "2^29", "2^29+1", "2^30", "2^28"}

func c08Run(u *vfUnit) {
	_ = c08Reg
	// RLIMIT_AS for this child
	syscall.Setrlimit(syscall.RLIMIT_AS, &syscall.Rlimit{Cur: 3 << 30, Max: 3 << 30})
	r := u.Rng
	kind := vfGenKinds[u.Index%len(vfGenKinds)]
	entries := c08Entries()
	caseNo := 0
	decode := func(e c08Entry, body []byte, mut string) {
		if len(body) == 0 || !e.applies(body[0]) {
			return
		}
		caseNo++
		if !u.Case(caseNo, e.name+":"+kind, "%s kind=%s mut=%s body=%x", e.name, kind, mut, vfTrimB(body, 2500)) {
			return
		}
		u.Eval(e.name + "/" + kind + "/" + mut[:min(len(mut), 6)])
		u.Count("decodes", 1)
		u.SetAdd("entry_points", e.name)
		input := append([]byte(nil), body...)
		before := c08Allocs()
		func() {
			defer func() {
				if rec := recover(); rec != nil {
					u.Violation("panic:"+e.name+":"+kind+":"+vfPanicSig(fmt.Sprint(rec), ""), fmt.Sprintf("%s panics on a %s mutant (%s): %v", e.name, kind, mut, rec), map[string]any{"entry": e.name, "body_hex": fmt.Sprintf("%x", vfTrimB(body, 4000)), "mutation": mut})
				}
			}()
			e.fn(input)
		}()
		delta := c08Allocs() - before
		bound := uint64(64*len(body)) + 1<<20
		u.Max("alloc_ratio_x100", int64(delta*100/uint64(len(body)+1)))
		if delta > bound {
			u.Violation("alloc:"+e.name+":"+kind, fmt.Sprintf("%s allocated %d bytes decoding a %d-byte %s mutant (%s); bound %d", e.name, delta, len(body), kind, mut, bound), map[string]any{"entry": e.name, "body_hex": fmt.Sprintf("%x", vfTrimB(body, 4000)), "mutation": mut, "allocated": delta})
		}
	}
	// With the allocator a request body is a sub-slice of a recycled 256 KiB page: bytes of earlier
	// packets lie behind it, within its capacity. Decoding must depend on the slice only: the same body
	// as an exact-size slice and as the head of a dirty page must give the same outcome and value.
	page := make([]byte, 8192)
	pageDiff := func(body []byte, mut string) {
		if len(body) == 0 || len(body) > 4000 || body[0] < 3 || body[0] > 20 && body[0] != 200 {
			return
		}
		for i := range page {
			page[i] = "TOP-SECRET-"[i%11]
		}
		copy(page, body)
		dec := func(b []byte) (pk any, err error) {
			defer func() {
				if rec := recover(); rec != nil {
					err = fmt.Errorf("panic: %v", rec)
				}
			}()
			q, e := makePacket(rxPacket{fxp(b[0]), b[1:]})
			if e == nil {
				if w, ok := q.(*sshFxpWritePacket); ok {
					w.Data = append([]byte(nil), w.Data...)
				}
			}
			return q, e
		}
		exact, e1 := dec(append([]byte(nil), body...))
		paged, e2 := dec(page[:len(body)])
		u.Count("page_backed_decodes", 1)
		if (e1 == nil) != (e2 == nil) || (e1 == nil && !reflect.DeepEqual(exact, paged)) {
			u.Violation("decode-reads-beyond-slice:"+kind, fmt.Sprintf("pkg.makePacket on a %s mutant (%s): as an exact-size slice -> err %v, as the head of a dirty page -> err %v (values equal: %v): the decoder looked at bytes beyond the frame", kind, mut, e1, e2, reflect.DeepEqual(exact, paged)), map[string]any{"body_hex": fmt.Sprintf("%x", vfTrimB(body, 400)), "mutation": mut})
		}
	}
	all := func(body []byte, mut string) {
		for _, e := range entries {
			decode(e, body, mut)
		}
		pageDiff(body, mut)
	}
	rounds := 3
	for round := 0; round < rounds; round++ {
		p := vfGenPkt(r, kind, r.Intn(32))
		// keep the base encoding small so that the window sweep stays cheap
		if len(p.Path) > 24 {
			p.Path = p.Path[:24]
		}
		if len(p.Path2) > 24 {
			p.Path2 = p.Path2[:24]
		}
		if len(p.Handle) > 24 {
			p.Handle = p.Handle[:24]
		}
		if len(p.Msg) > 24 {
			p.Msg = p.Msg[:24]
		}
		if len(p.Lang) > 8 {
			p.Lang = p.Lang[:8]
		}
		if len(p.Data) > 40 {
			p.Data = p.Data[:40]
		}
		if len(p.Names) > 3 {
			p.Names = p.Names[:3]
		}
		for i := range p.Names {
			if len(p.Names[i].Long) > 20 {
				p.Names[i].Long = p.Names[i].Long[:20]
			}
			if len(p.Names[i].Name) > 12 {
				p.Names[i].Name = p.Names[i].Name[:12]
			}
			c08TrimExt(&p.Names[i].Attrs)
		}
		c08TrimExt(&p.Attrs)
		if round == 2 && strings.Contains("OPEN SETSTAT FSETSTAT MKDIR ATTRS", kind) {
			// a valid block with many extended attributes (nothing limits their number but the frame)
			p.Attrs.Flags |= rfAttrExt
			p.Attrs.Ext = nil
			for i := 0; i < 20; i++ {
				p.Attrs.Ext = append(p.Attrs.Ext, [2]string{fmt.Sprintf("k%d", i), "v"})
			}
		}
		for i := range p.Exts {
			if len(p.Exts[i][0]) > 12 {
				p.Exts[i][0] = p.Exts[i][0][:12]
			}
			if len(p.Exts[i][1]) > 12 {
				p.Exts[i][1] = p.Exts[i][1][:12]
			}
		}
		body := p.Body()
		if round == 0 {
			u.Sample(map[string]any{"kind": kind, "valid_body_hex": fmt.Sprintf("%x", vfTrimB(body, 120)), "mutations": "truncate@k, window@k=v, type=t, random"})
		}
		all(body, "valid")
		// every truncation point
		for k := 0; k < len(body); k++ {
			all(body[:k], fmt.Sprintf("trunc@%d", k))
		}
		// every 4-byte window replaced by hostile values
		for k := 1; k+4 <= len(body); k++ {
			orig := binary.BigEndian.Uint32(body[k:])
			for hi, h := range c08Hostile {
				v := h(orig)
				if v == orig {
					continue
				}
				m := append([]byte(nil), body...)
				binary.BigEndian.PutUint32(m[k:], v)
				all(m, fmt.Sprintf("win@%d=%s", k, c08HostileNames[hi]))
			}
		}
		// every type byte
		if round == 0 {
			for t := 0; t < 256; t++ {
				m := append([]byte(nil), body...)
				m[0] = byte(t)
				decode(entries[0], m, fmt.Sprintf("type=%d", t))
				for _, e := range entries[1:] {
					if e.name == "fx.RequestPacket.UnmarshalBinary(anytype)" || e.name == "fx.RequestPacket.UnmarshalBinary" || e.name == "fx.RawPacket.UnmarshalBinary" {
						decode(e, m, fmt.Sprintf("type=%d", t))
					}
				}
			}
		}
		// random bodies behind the valid type byte, and random garbage appended
		for i := 0; i < 30; i++ {
			m := append([]byte{body[0]}, r.Bytes(r.Intn(200))...)
			all(m, "random")
			m2 := append(append([]byte(nil), body...), r.Bytes(1+r.Intn(40))...)
			all(m2, "garbage-appended")
		}
	}
	c08Framing(u)
	c08ReusedValues(u)
}

// c08ReusedValues: totality must not depend on what a decoder's target held before. Streams of
// valid frames with payloads of changing length are decoded into ONE long-lived value per type
// (as a receive loop does), the payload is read out after every decode; a panic or an error on
// a valid frame is a violation.
func c08ReusedValues(u *vfUnit) {
	r := u.Rng.Fork()
	var reply sshfx.ExtendedReplyPacket
	var ext sshfx.ExtendedPacket
	var data sshfx.DataPacket
	var write sshfx.WritePacket
	var raw sshfx.RawPacket
	drain := func(d sshfx.ExtendedData) {
		if b, ok := d.(*sshfx.Buffer); ok {
			_ = b.Bytes()
			for b.Len() >= 8 {
				b.ConsumeUint64()
			}
			for b.Len() > 0 {
				b.ConsumeUint8()
			}
			if b.Len() != 0 {
				panic(fmt.Sprintf("Buffer.Len() = %d after the payload was read out", b.Len()))
			}
		}
	}
	for i := 0; i < 200; i++ {
		payload := r.Bytes([]int{0, 1, 8, 16, 40, 3, 88, 8, 300, 2}[i%10] + r.Intn(3))
		name := ""
		var err error
		func() {
			defer func() {
				if rec := recover(); rec != nil {
					err = fmt.Errorf("panic: %v", rec)
				}
			}()
			switch i % 5 {
			case 0:
				name = "fx.ExtendedReplyPacket(reused)"
				b := vfPkt{Type: rfExtendedReply, ID: 1, ExtData: payload}.Body()
				if err = reply.UnmarshalPacketBody(sshfx.NewBuffer(append([]byte(nil), b[5:]...))); err == nil {
					drain(reply.Data)
				}
			case 1:
				name = "fx.ExtendedPacket(reused, unregistered extension)"
				b := vfPkt{Type: rfExtended, ID: 1, Ext: "vf-unregistered@example.com", ExtData: payload}.Body()
				if err = ext.UnmarshalPacketBody(sshfx.NewBuffer(append([]byte(nil), b[5:]...))); err == nil {
					drain(ext.Data)
				}
			case 2:
				name = "fx.DataPacket(reused)"
				b := vfPkt{Type: rfData, ID: 1, Data: payload}.Body()
				if err = data.UnmarshalPacketBody(sshfx.NewBuffer(append([]byte(nil), b[5:]...))); err == nil && len(data.Data) != len(payload) {
					err = fmt.Errorf("%d payload bytes for %d sent", len(data.Data), len(payload))
				}
			case 3:
				name = "fx.WritePacket(reused)"
				b := vfPkt{Type: rfWrite, ID: 1, Handle: "h", Off: 7, Data: payload}.Body()
				if err = write.UnmarshalPacketBody(sshfx.NewBuffer(append([]byte(nil), b[5:]...))); err == nil && len(write.Data) != len(payload) {
					err = fmt.Errorf("%d payload bytes for %d sent", len(write.Data), len(payload))
				}
			case 4:
				name = "fx.RawPacket(reused)"
				b := vfPkt{Type: rfExtendedReply, ID: 1, ExtData: payload}.Body()
				if err = raw.UnmarshalBinary(append([]byte(nil), b...)); err == nil {
					_ = raw.Data.Bytes()
					for raw.Data.Len() > 0 {
						raw.Data.ConsumeUint8()
					}
				}
			}
		}()
		u.Count("decodes", 1)
		u.SetAdd("entry_points", name)
		u.Eval("reused/" + name)
		if err != nil {
			u.Violation("reused-value:"+name, fmt.Sprintf("%s: valid frame #%d (%d payload bytes) of a stream decoded into a long-lived value: %v", name, i, len(payload), err), nil)
			return
		}
	}
}

func c08TrimExt(a *vfAttrs) {
	if len(a.Ext) > 2 {
		a.Ext = a.Ext[:2]
	}
	for i := range a.Ext {
		if len(a.Ext[i][0]) > 10 {
			a.Ext[i][0] = a.Ext[i][0][:10]
		}
		if len(a.Ext[i][1]) > 10 {
			a.Ext[i][1] = a.Ext[i][1][:10]
		}
	}
}

// c08Framing checks the frame readers: recvPacket (allocator nil / on) and
// filexfer's readPacket (through RawPacket.ReadFrom / RequestPacket.ReadFrom).
func c08Framing(u *vfUnit) {
	r := u.Rng.Fork()
	type reader struct {
		name  string
		fn    func(rd io.Reader) (payloadLen int, err error)
		limit uint32 // 0 = maxMsgLength
	}
	alloc := newAllocator()
	big := make([]byte, 1<<20) // a caller-supplied receive buffer larger than the frame limit
	mid := make([]byte, 1<<16)
	readers := []reader{
		{"pkg.recvPacket(alloc=nil)", func(rd io.Reader) (int, error) {
			_, b, err := recvPacket(rd, nil, 0)
			return len(b) + 1, err
		}, 0},
		{"pkg.recvPacket(alloc)", func(rd io.Reader) (int, error) {
			_, b, err := recvPacket(rd, alloc, 7)
			alloc.ReleasePages(7)
			return len(b) + 1, err
		}, 0},
		{"fx.RawPacket.ReadFrom", func(rd io.Reader) (int, error) {
			var q sshfx.RawPacket
			err := q.ReadFrom(rd, nil, maxMsgLength)
			return q.Data.Len() + 5, err
		}, 0},
		{"fx.RequestPacket.ReadFrom", func(rd io.Reader) (int, error) {
			var q sshfx.RequestPacket
			err := q.ReadFrom(rd, make([]byte, 16), maxMsgLength)
			return -1, err
		}, 0},
		{"fx.RawPacket.ReadFrom(buffer 1 MiB)", func(rd io.Reader) (int, error) {
			var q sshfx.RawPacket
			err := q.ReadFrom(rd, big, maxMsgLength)
			return q.Data.Len() + 5, err
		}, 0},
		{"fx.RequestPacket.ReadFrom(buffer 1 MiB)", func(rd io.Reader) (int, error) {
			var q sshfx.RequestPacket
			err := q.ReadFrom(rd, big, maxMsgLength)
			return -1, err
		}, 0},
		{"fx.RawPacket.ReadFrom(limit 34000, buffer 64 KiB)", func(rd io.Reader) (int, error) {
			var q sshfx.RawPacket
			err := q.ReadFrom(rd, mid, 34000)
			return q.Data.Len() + 5, err
		}, 34000},
	}
	body := vfPkt{Type: rfStat, ID: 9, Path: "/some/path"}.Body()
	lengths := []uint32{0, 1, 2, 4, uint32(len(body)) - 1, uint32(len(body)), uint32(len(body)) + 1, 33999, 34000, 34001, 60000, 65536, 70000, maxMsgLength - 1, maxMsgLength, maxMsgLength + 1, 1 << 20, 1<<31 - 1, 1 << 31, 1<<32 - 1}
	for i := 0; i < 6; i++ {
		lengths = append(lengths, r.Uint32())
	}
	caseNo := 1 << 30
	for _, rdr := range readers {
		for _, l := range lengths {
			for _, avail := range []int{0, 1, len(body) - 1, len(body), len(body) + 7, 300000} {
				caseNo++
				if !u.Case(caseNo, rdr.name, "%s declared=%d avail=%d", rdr.name, l, avail) {
					continue
				}
				var stream []byte
				stream = binary.BigEndian.AppendUint32(stream, l)
				filler := make([]byte, avail)
				copy(filler, body)
				stream = append(stream, filler...)
				cr := &c08CountReader{r: bytes.NewReader(stream)}
				u.Eval(fmt.Sprintf("frame/%s/%d/%d", rdr.name, l, avail))
				u.Count("decodes", 1)
				u.SetAdd("entry_points", rdr.name)
				before := c08Allocs()
				var n int
				var err error
				func() {
					defer func() {
						if rec := recover(); rec != nil {
							err = fmt.Errorf("panic: %v", rec)
							u.Violation("panic:"+rdr.name, fmt.Sprintf("%s panics on declared length %d with %d bytes available: %v", rdr.name, l, avail, rec), map[string]any{"declared": l, "avail": avail})
						}
					}()
					n, err = rdr.fn(cr)
				}()
				delta := c08Allocs() - before
				w := map[string]any{"reader": rdr.name, "declared": l, "avail": avail}
				minLen := uint32(1)
				if rdr.name[:2] == "fx" {
					minLen = 5 // filexfer requires type + request id
				}
				limit := rdr.limit
				if limit == 0 {
					limit = maxMsgLength
				}
				switch {
				case l > limit:
					u.Count("frames_refused_long", 1)
					if err == nil {
						u.Violation("frame-long-accepted:"+rdr.name, fmt.Sprintf("%s accepted a frame of declared length %d (limit %d)", rdr.name, l, limit), w)
					}
					if cr.n > 4 {
						u.Violation("frame-long-body-read:"+rdr.name, fmt.Sprintf("%s read %d body bytes of a refused %d-byte frame", rdr.name, cr.n-4, l), w)
					}
				case l == 0:
					u.Count("frames_refused_zero", 1)
					if err == nil {
						u.Violation("frame-zero-accepted:"+rdr.name, fmt.Sprintf("%s accepted a zero-length frame", rdr.name), w)
					}
				case uint32(avail) < l:
					u.Count("frames_short_body", 1)
					if err == nil {
						u.Violation("frame-short-delivered:"+rdr.name, fmt.Sprintf("%s delivered a frame of declared length %d although only %d bytes were available", rdr.name, l, avail), w)
					}
				case l >= minLen:
					if err == nil && n >= 0 && uint32(n) != l {
						u.Violation("frame-length-mismatch:"+rdr.name, fmt.Sprintf("%s returned %d bytes for a frame of declared length %d", rdr.name, n, l), w)
					}
					if !strings.HasPrefix(rdr.name, "fx.RequestPacket.ReadFrom") && err != nil && l >= 5 {
						u.Violation("frame-valid-refused:"+rdr.name, fmt.Sprintf("%s refused a complete frame of length %d: %v", rdr.name, l, err), w)
					}
				}
				// the allocator variant legitimately takes one 256 KiB page
				if delta > uint64(64*len(stream))+1<<20 {
					u.Violation("alloc:"+rdr.name, fmt.Sprintf("%s allocated %d bytes for declared=%d avail=%d", rdr.name, delta, l, avail), w)
				}
			}
		}
	}
}
