//go:build verif

package sftp

// Seeded generators of logical packets (boundary-biased field values), shared by
// the codec, decoder and hostile-peer checks.

import (
	"fmt"
	"strings"
)

func vfGenStr(r *vfRand) string {
	switch r.Intn(10) {
	case 0:
		return ""
	case 1:
		return "a"
	case 2:
		return string(r.Bytes(1 + r.Intn(4000))) // arbitrary bytes, non-UTF-8, NULs
	case 3:
		return "nul\x00inside"
	case 4:
		return "/" + strings.Repeat("d/", r.Intn(200)) + "f"
	case 5:
		return "\xff\xfe\xfd"
	default:
		return fmt.Sprintf("/dir%d/file-%d.txt", r.Intn(10), r.Intn(100000))
	}
}

func vfGenU32(r *vfRand) uint32 {
	switch r.Intn(6) {
	case 0:
		return 0
	case 1:
		return 1
	case 2:
		return 1 << 31
	case 3:
		return 0xFFFFFFFF
	default:
		return r.Uint32()
	}
}

func vfGenU64(r *vfRand) uint64 {
	switch r.Intn(6) {
	case 0:
		return 0
	case 1:
		return 1<<32 + uint64(r.Uint32())
	case 2:
		return 0xFFFFFFFFFFFFFFFF
	case 3:
		return 1<<32 - 1
	default:
		return r.Uint64()
	}
}

func vfGenAttrs(r *vfRand, sub int) vfAttrs {
	a := vfAttrs{}
	if sub&1 != 0 {
		a.Flags |= rfAttrSize
		a.Size = vfGenU64(r)
	}
	if sub&2 != 0 {
		a.Flags |= rfAttrUIDGID
		a.UID, a.GID = vfGenU32(r), vfGenU32(r)
	}
	if sub&4 != 0 {
		a.Flags |= rfAttrPerm
		a.Perm = vfGenU32(r)
	}
	if sub&8 != 0 {
		a.Flags |= rfAttrTime
		a.Atime, a.Mtime = vfGenU32(r), vfGenU32(r)
	}
	if sub&16 != 0 {
		a.Flags |= rfAttrExt
		n := r.Intn(6)
		for i := 0; i < n; i++ {
			a.Ext = append(a.Ext, [2]string{vfGenStr(r), vfGenStr(r)})
		}
	}
	return a
}

func vfGenData(r *vfRand) []byte {
	switch r.Intn(8) {
	case 0:
		return []byte{}
	case 1:
		return r.Bytes(1)
	case 2:
		return r.Bytes(32768)
	case 3:
		return r.Bytes(70000)
	default:
		return r.Bytes(r.Intn(3000))
	}
}

// vfGenPkt produces a random logical packet of the given kind index.
var vfGenKinds = []string{"INIT", "VERSION", "OPEN", "CLOSE", "READ", "WRITE", "LSTAT", "FSTAT", "SETSTAT", "FSETSTAT", "OPENDIR",
	"READDIR", "REMOVE", "MKDIR", "RMDIR", "REALPATH", "STAT", "RENAME", "READLINK", "SYMLINK",
	"EXT-statvfs", "EXT-posix-rename", "EXT-hardlink", "EXT-fsync",
	"STATUS", "HANDLE", "DATA", "NAME", "ATTRS", "REPLY-statvfs"}

func vfGenPkt(r *vfRand, kind string, sub int) vfPkt {
	p := vfPkt{ID: vfGenU32(r)}
	exts := func() [][2]string {
		var e [][2]string
		for i := r.Intn(5); i > 0; i-- {
			e = append(e, [2]string{vfGenStr(r), vfGenStr(r)})
		}
		return e
	}
	switch kind {
	case "INIT":
		p = vfPkt{Type: rfInit, Version: vfGenU32(r), Exts: exts()}
	case "VERSION":
		p = vfPkt{Type: rfVersion, Version: vfGenU32(r), Exts: exts()}
	case "OPEN":
		p.Type, p.Path, p.Pflags, p.Attrs = rfOpen, vfGenStr(r), vfGenU32(r), vfGenAttrs(r, sub)
	case "CLOSE":
		p.Type, p.Handle = rfClose, vfGenStr(r)
	case "READ":
		p.Type, p.Handle, p.Off, p.Len = rfRead, vfGenStr(r), vfGenU64(r), vfGenU32(r)
	case "WRITE":
		p.Type, p.Handle, p.Off, p.Data = rfWrite, vfGenStr(r), vfGenU64(r), vfGenData(r)
	case "LSTAT":
		p.Type, p.Path = rfLstat, vfGenStr(r)
	case "FSTAT":
		p.Type, p.Handle = rfFstat, vfGenStr(r)
	case "SETSTAT":
		p.Type, p.Path, p.Attrs = rfSetstat, vfGenStr(r), vfGenAttrs(r, sub)
	case "FSETSTAT":
		p.Type, p.Handle, p.Attrs = rfFsetstat, vfGenStr(r), vfGenAttrs(r, sub)
	case "OPENDIR":
		p.Type, p.Path = rfOpendir, vfGenStr(r)
	case "READDIR":
		p.Type, p.Handle = rfReaddir, vfGenStr(r)
	case "REMOVE":
		p.Type, p.Path = rfRemove, vfGenStr(r)
	case "MKDIR":
		p.Type, p.Path = rfMkdir, vfGenStr(r) // packet.go carries only the flags word; generated with flags 0
	case "RMDIR":
		p.Type, p.Path = rfRmdir, vfGenStr(r)
	case "REALPATH":
		p.Type, p.Path = rfRealpath, vfGenStr(r)
	case "STAT":
		p.Type, p.Path = rfStat, vfGenStr(r)
	case "RENAME":
		p.Type, p.Path, p.Path2 = rfRename, vfGenStr(r), vfGenStr(r)
	case "READLINK":
		p.Type, p.Path = rfReadlink, vfGenStr(r)
	case "SYMLINK":
		p.Type, p.Path, p.Path2 = rfSymlink, vfGenStr(r), vfGenStr(r)
	case "EXT-statvfs":
		p.Type, p.Ext, p.Path = rfExtended, "statvfs@openssh.com", vfGenStr(r)
	case "EXT-posix-rename":
		p.Type, p.Ext, p.Path, p.Path2 = rfExtended, "posix-rename@openssh.com", vfGenStr(r), vfGenStr(r)
	case "EXT-hardlink":
		p.Type, p.Ext, p.Path, p.Path2 = rfExtended, "hardlink@openssh.com", vfGenStr(r), vfGenStr(r)
	case "EXT-fsync":
		p.Type, p.Ext, p.Handle = rfExtended, "fsync@openssh.com", vfGenStr(r)
	case "STATUS":
		p.Type, p.Code, p.Msg, p.Lang = rfStatus, vfGenU32(r), vfGenStr(r), vfGenStr(r)
	case "HANDLE":
		p.Type, p.Handle = rfHandle, vfGenStr(r)
	case "DATA":
		p.Type, p.Data = rfData, vfGenData(r)
	case "NAME":
		p.Type = rfName
		n := 0
		switch r.Intn(5) {
		case 0:
			n = 0
		case 1:
			n = 1
		case 2:
			n = 300
		default:
			n = r.Intn(40)
		}
		for i := 0; i < n; i++ {
			nm := vfGenStr(r)
			if len(nm) > 300 {
				nm = nm[:300]
			}
			p.Names = append(p.Names, vfName{Name: nm, Long: "-rw-r--r-- 1 0 0 " + nm, Attrs: vfGenAttrs(r, (sub+i)%32)})
		}
	case "ATTRS":
		p.Type, p.Attrs = rfAttrs, vfGenAttrs(r, sub)
	case "REPLY-statvfs":
		p.Type = rfExtendedReply
		p.VFS = &vfStatVFS{vfGenU64(r), vfGenU64(r), vfGenU64(r), vfGenU64(r), vfGenU64(r), vfGenU64(r), vfGenU64(r), vfGenU64(r), vfGenU64(r), vfGenU64(r), vfGenU64(r)}
	}
	return p
}
