//go:build verif

package sftp

// C02 — Servers answer every request once, with its id, in arrival order.
// A raw driver pipelines hostile request programs (valid and failing requests of all
// types, unique ids) without waiting; the oracle runs on the response stream:
// the sequence of response ids must equal the sequence of request ids, every
// response must decode with the reference codec and have a type legal for its
// request. Worker/ready/dispatch hooks and slow handlers force late arrivals to
// finish first; the hook log measures how often the manager had to reorder.

import (
	"fmt"
	"os"
	"path/filepath"
	"runtime"
	"strings"
	"testing"
	"time"
)

func TestVerifC02(t *testing.T) {
	vfMain(t, vfCheck{
		ID: "C02", Level: "exploration",
		Rule:        "seeded fully pipelined request programs (depth 1..400; OPEN/OPENDIR/READ/WRITE/CLOSE/FSTAT/FSETSTAT/READDIR on live, stale, bogus and wrong-kind handles, path commands on existing/missing paths, zero-length and maximal reads/writes (up to a WRITE whose frame is exactly 256 KiB), known and unknown extended requests) against Server (also read-only) and RequestServer with allocator on/off, GOMAXPROCS in {1,2,16}, seeded delays at the worker/ready/dispatch hooks and in handler ReadAt/WriteAt. A class is (server, allocator, GOMAXPROCS, depth bucket, delay profile); a program is non-trivial when the hook log shows at least one completion-order inversion.",
		Assumptions: []string{"input stays open until all responses arrived (responses at EOF belong to C07's prefix rule)", "race detector on"},
		Units: func(tier vfTier, seed uint64) int {
			if tier == vfThorough {
				return 6400
			}
			return 32
		},
		Shards: func(tier vfTier) int {
			if tier == vfThorough {
				return 14
			}
			return 8
		},
		Floors: map[string]int64{"programs": 100, "programs_with_duplicate_ids": 20, "programs_with_inversions": 30, "completion_inversions": 500, "requests": 5000},
		Run:    c02Run,
	})
}

type c02Env struct {
	kind  vfKind
	dir   string   // os server root
	store *vfStore // request server backend
}

func c02Paths(e *c02Env) (files, dirs, missing []string) {
	root := "/"
	if e.kind == vfOS {
		root = e.dir
	}
	j := func(s string) string { return filepath.Join(root, s) }
	return []string{j("a"), j("b"), j("d/x"), j("big")}, []string{j("d"), j("e")}, []string{j("nope"), j("d/nope"), j("nope/x")}
}

func c02Setup(u *vfUnit, e *c02Env) {
	if e.kind == vfOS {
		e.dir = u.TempDir() + fmt.Sprintf("/t%d", u.Rng.Intn(1<<30))
		os.MkdirAll(filepath.Join(e.dir, "d"), 0o755)
		os.MkdirAll(filepath.Join(e.dir, "e"), 0o755)
		os.WriteFile(filepath.Join(e.dir, "a"), vfPattern(1, 0, 5000), 0o644)
		os.WriteFile(filepath.Join(e.dir, "b"), vfPattern(2, 0, 100), 0o644)
		os.WriteFile(filepath.Join(e.dir, "d/x"), vfPattern(3, 0, 10), 0o644)
		os.WriteFile(filepath.Join(e.dir, "big"), vfPattern(4, 0, 300000), 0o644)
	} else {
		e.store = vfNewStore()
		e.store.Mkdir("/d")
		e.store.Mkdir("/e")
		e.store.Put("/a", vfPattern(1, 0, 5000))
		e.store.Put("/b", vfPattern(2, 0, 100))
		e.store.Put("/d/x", vfPattern(3, 0, 10))
		e.store.Put("/big", vfPattern(4, 0, 300000))
	}
}

// c02Program generates n well-formed requests with unique ids.
func c02Program(r *vfRand, e *c02Env, n int, bigReads bool) ([]vfPkt, int) {
	maxFrames := 0
	files, dirs, missing := c02Paths(e)
	anyPath := func() string {
		switch r.Intn(4) {
		case 0:
			return vfPick(r, dirs)
		case 1:
			return vfPick(r, missing)
		default:
			return vfPick(r, files)
		}
	}
	handle := func() string {
		switch r.Intn(10) {
		case 0:
			return "bogus"
		case 1:
			return ""
		default:
			return fmt.Sprint(1 + r.Intn(8))
		}
	}
	base := r.Uint32()
	var out []vfPkt
	for i := 0; i < n; i++ {
		p := vfPkt{ID: base + uint32(i)*7919}
		switch x := r.Intn(100); {
		case x < 10:
			// read-only, write-only and read-write handles must all be common (wrong-kind requests on them matter)
			p.Type, p.Path, p.Pflags = rfOpen, anyPath(), vfPick(r, []uint32{rfRead_, rfRead_, rfWrite_, rfRead_ | rfWrite_, rfWrite_ | rfCreat_, uint32(r.Intn(64))})
		case x < 14:
			p.Type, p.Path = rfOpendir, anyPath()
		case x < 40:
			p.Type, p.Handle, p.Off = rfRead, handle(), uint64(r.Intn(6000))
			if r.Intn(15) == 0 {
				p.Off = []uint64{1 << 63, 1<<64 - 1, 1<<63 - 1}[r.Intn(3)]
			}
			switch r.Intn(5) {
			case 0:
				p.Len = 0
			case 1:
				p.Len = 1<<32 - 1
				if bigReads {
					// with a raised maximum payload the answer to such a read is a frame beyond 256 KiB: still one answer
					p.Len, p.Off = uint32(vfPick(r, []int{262131, 262144, 262145, 300000, 1<<32 - 1})), uint64(r.Intn(5000))
				}
			default:
				p.Len = uint32(r.Intn(4000))
			}
		case x < 60:
			p.Type, p.Handle, p.Off = rfWrite, handle(), uint64(r.Intn(6000))
			if r.Intn(12) == 0 {
				// an offset no signed 64-bit position can express is a refusal, i.e. one answer like any other
				p.Off = []uint64{1 << 63, 1<<64 - 1, 1<<63 - 1, 1<<63 + 4096}[r.Intn(4)]
			}
			switch r.Intn(5) {
			case 0:
				p.Data = []byte{}
			case 1:
				p.Data = r.Bytes(32768)
				if r.Intn(5) == 0 {
					// the largest legal request: a frame of exactly 256 KiB (length word 262144)
					p.Data = r.Bytes(262144 - 21 - len(p.Handle))
					maxFrames++
				}
			default:
				p.Data = r.Bytes(r.Intn(300))
			}
		case x < 68:
			p.Type, p.Handle = rfClose, handle()
		case x < 72:
			p.Type, p.Handle = rfFstat, handle()
		case x < 75:
			p.Type, p.Handle, p.Attrs = rfFsetstat, handle(), vfAttrs{Flags: rfAttrPerm, Perm: 0o644}
		case x < 80:
			p.Type, p.Handle = rfReaddir, handle()
		case x < 84:
			p.Type, p.Path = rfStat, anyPath()
		case x < 87:
			p.Type, p.Path = rfLstat, anyPath()
		case x < 89:
			p.Type, p.Path = rfRealpath, anyPath()
		case x < 90:
			p.Type, p.Path = rfReadlink, anyPath()
		case x < 92:
			p.Type, p.Path = rfMkdir, vfPick(r, missing)
		case x < 93:
			p.Type, p.Path = rfRmdir, vfPick(r, missing)
		case x < 94:
			p.Type, p.Path = rfRemove, vfPick(r, missing)
		case x < 95:
			p.Type, p.Path, p.Path2 = rfRename, vfPick(r, missing), vfPick(r, missing)
		case x < 96:
			p.Type, p.Path, p.Attrs = rfSetstat, anyPath(), vfAttrs{Flags: rfAttrPerm, Perm: 0o644}
		case x < 97:
			p.Type, p.Path, p.Path2 = rfSymlink, "target", vfPick(r, missing)
		case x < 98:
			p.Type, p.Ext, p.Path = rfExtended, "statvfs@openssh.com", vfPick(r, []string{anyPath(), files[0], "/"})
		case x < 99:
			p.Type, p.Ext, p.Path, p.Path2 = rfExtended, "posix-rename@openssh.com", vfPick(r, missing), vfPick(r, missing)
		default:
			p.Type, p.Ext, p.ExtData = rfExtended, "unknown-"+fmt.Sprint(r.Intn(100))+"@example.com", r.Bytes(r.Intn(30))
		}
		// attribute blocks with extended pairs of every size, down to empty strings (well-formed requests all of them)
		if (p.Type == rfSetstat || p.Type == rfFsetstat || p.Type == rfMkdir || p.Type == rfOpen) && r.Intn(3) == 0 {
			p.Attrs.Flags |= rfAttrExt
			p.Attrs.Ext = nil
			for k := r.Intn(4); k >= 0; k-- {
				p.Attrs.Ext = append(p.Attrs.Ext, vfPick(r, [][2]string{{"a", "b"}, {"", ""}, {"k", ""}, {"", "v"}, {"user.comment@example.com", "a longer value than the others"}}))
			}
		}
		out = append(out, p)
		// the same request again, back to back, under fresh ids: each is a request of its own
		// (a reply object shared between identical requests would show as a repeated or missing id)
		if r.Intn(12) == 0 && len(p.Data) < 4096 {
			for k := 1 + r.Intn(3); k > 0 && i+1 < n; k-- {
				i++
				q := p
				q.ID = base + uint32(i)*7919
				out = append(out, q)
			}
		}
	}
	return out, maxFrames
}

func c02Run(u *vfUnit) {
	r := u.Rng
	kind := vfKind(u.Index % 2)
	alloc := (u.Index/2)%2 == 1
	procs := []int{1, 2, 16}[(u.Index/4)%3]
	prev := runtime.GOMAXPROCS(procs)
	defer runtime.GOMAXPROCS(prev)
	profile := (u.Index / 12) % 3
	programs := 6
	for pi := 0; pi < programs; pi++ {
		e := &c02Env{kind: kind}
		c02Setup(u, e)
		depth := []int{1, 2, 9, 40, 150, 400}[(pi+u.Index)%6]
		cfg := vfSrvCfg{Kind: kind, Alloc: alloc}
		// every fourth program of the os-backed server runs against a read-only server: refusals
		// are responses like any other (one each, own id, in order)
		if kind == vfOS && pi%4 == 3 {
			cfg.ReadOnly = true
		}
		// every sixth program: a session that has already handled almost 2^32 packets (the internal order ids wrap)
		if pi%6 == 1 {
			cfg.PacketCount = 0xFFFFFFFF - uint32(r.Intn(120))
			u.Count("programs_crossing_the_order_id_wrap", 1)
		}
		// every sixth program of a unit (both servers): the maximum payload raised beyond the 256 KiB message limit
		if pi%6 == 4 {
			cfg.MaxTx = 300000
			u.Count("programs_with_raised_max_payload", 1)
		}
		if kind == vfRS {
			cfg.H = e.store.Handlers(vfHandlerOpt{OpenFile: pi%2 == 0, CmdAll: true, ListAll: pi%3 == 0})
			if profile > 0 {
				rr := r.Fork()
				var mu = make(chan struct{}, 1)
				mu <- struct{}{}
				e.store.Delay = func(write bool, off int64) {
					<-mu
					d := rr.Intn(300)
					mu <- struct{}{}
					if d < 200 {
						time.Sleep(time.Duration(d) * time.Microsecond)
					}
				}
			}
		}
		hc := vfHookCfg{Seed: r.Uint64(), MaxSleepUs: 200}
		switch profile {
		case 0:
			hc.DelayPct = map[int]int{vhSrvWorker: 50, vhRsWorker: 50}
			hc.MaxSleepUs = 0
		case 1:
			hc.DelayPct = map[int]int{vhSrvWorker: 60, vhRsWorker: 60, vhPmReady: 30, vhPmDispatch: 10}
		case 2:
			// early order ids are slowed down deterministically: late arrivals finish first
			hc.Bias = func(ev vfHookEv) int {
				if (ev.Point == vhSrvWorker || ev.Point == vhRsWorker) && ev.OID%4 != 0 {
					return int(400 - (ev.OID%8)*50)
				}
				return -1
			}
		}
		hooks := vfInstallHooks(hc)
		rs, err := vfRawConnect(cfg, vfPipeOpts{Buf: []int{0, 0, 4096}[pi%3]}, true)
		if err != nil {
			hooks.Uninstall()
			u.Inconclusive("connect: %v", err)
			return
		}
		prog, maxFrames := c02Program(r, e, depth, cfg.MaxTx > 0)
		label := fmt.Sprintf("%v/alloc=%v/procs=%d/depth=%d/profile=%d", kind, alloc, procs, depth, profile)
		if cfg.PacketCount != 0 {
			label += "/order-id-wrap"
		}
		if cfg.ReadOnly {
			label += "/read-only"
			u.Count("programs_read_only_server", 1)
		}
		// every third program re-uses request ids among in-flight requests (a peer is free to do so):
		// read-only requests whose replies identify the request by content, not by id
		dupIDs := pi%3 == 2
		var expect []string
		if dupIDs {
			label += "/dup-ids"
			files, _, _ := c02Paths(e)
			hr, herr := rs.R.Phase(60*time.Second, vfPkt{Type: rfOpen, ID: 1, Path: files[0], Pflags: rfRead_})
			if herr != nil || len(hr) != 1 || hr[0].Type != rfHandle {
				u.Violation("dup-id-open:"+kind.String(), fmt.Sprintf("%s: %v %v", label, hr, herr), nil)
				hooks.Uninstall()
				rs.End(60 * time.Second)
				continue
			}
			h := hr[0].Handle
			pool := 1 + r.Intn(3)
			sizes := []int{5000, 100, 10, 300000}
			prog = prog[:0]
			for i := 0; i < depth; i++ {
				id := uint32(7 + r.Intn(pool))
				if r.Intn(4) == 0 {
					k := r.Intn(3)
					prog = append(prog, vfPkt{Type: rfStat, ID: id, Path: files[k]})
					expect = append(expect, fmt.Sprintf("size=%d", sizes[k]))
				} else {
					off := r.Intn(4900)
					prog = append(prog, vfPkt{Type: rfRead, ID: id, Handle: h, Off: uint64(off), Len: 24})
					expect = append(expect, fmt.Sprintf("data=%x", vfPattern(1, int64(off), 24)))
				}
			}
			u.Count("programs_with_duplicate_ids", 1)
			maxFrames = 0
		}
		if !dupIDs && len(prog) > 2 {
			// an INIT is a request like any other when it comes again in the middle of a session: answered once
			// (VERSION), in its place. And a request whose ANSWER is larger than any request may be: a REALPATH
			// of a very long path (the NAME reply carries it twice).
			insert := func(q vfPkt) {
				at := 1 + r.Intn(len(prog)-1)
				prog = append(prog[:at], append([]vfPkt{q}, prog[at:]...)...)
			}
			if pi%2 == 0 {
				insert(vfPkt{Type: rfInit, Version: 3})
				u.Count("programs_with_init_in_the_middle", 1)
			}
			if pi == 3 {
				insert(vfPkt{Type: rfRealpath, ID: 0x7E000001, Path: "/" + strings.Repeat("a", 140<<10)})
				u.Count("programs_with_an_answer_larger_than_256KiB", 1)
			}
		}
		u.Count("requests_with_maximal_frame", int64(maxFrames))
		u.Eval(label)
		u.Count("programs", 1)
		u.Count("requests", int64(len(prog)))
		u.Max("pipeline_depth", int64(depth))
		// one burst, no waiting; the writer goroutine may block on a bounded transport
		var stream []byte
		for _, p := range prog {
			stream = append(stream, p.Frame()...)
		}
		base := rs.R.Count() // the VERSION reply (and the reply to the preparatory OPEN)
		sent := vfGo(func() { rs.R.Send(stream) })
		w, dump := rs.R.WaitCount(base+len(prog), 120*time.Second)
		witness := func() map[string]any {
			var l []string
			for i, p := range prog {
				if i < 60 {
					l = append(l, p.String())
				}
			}
			return map[string]any{"config": label, "program_head": l, "seed_unit": u.Index, "program_index": pi}
		}
		all := rs.R.All()
		if w == vfStuck {
			u.Violation("missing-response:"+kind.String(), fmt.Sprintf("%s: %d requests pipelined, only %d responses arrived and the process is quiescent\n%s", label, len(prog), len(all)-base, vfTrim(dump, 2500)), witness())
		} else if w == vfTimeout {
			u.Inconclusive("%s: wall-clock cap waiting for responses", label)
		}
		<-sent
		// the oracle on the response stream
		resp := all[min(base, len(all)):]
		if len(resp) < len(prog) && w == vfDone {
			// the response stream ended (the server hung up) before every request was answered: all requests of a
			// program are well-formed, so the first unanswered one was dropped
			u.Violation("missing-response:"+kind.String(), fmt.Sprintf("%s: %d requests pipelined, the server ended the session after %d responses; first unanswered: %s", label, len(prog), len(resp), prog[len(resp)]), witness())
		}
		if len(resp) > len(prog) {
			u.Violation("extra-response:"+kind.String(), fmt.Sprintf("%s: %d responses for %d requests", label, len(resp), len(prog)), witness())
		}
		for i, body := range resp {
			if i >= len(prog) {
				break
			}
			req := prog[i]
			p, perr := vfParse(body, true)
			if perr != nil {
				u.Violation("response-undecodable:"+kind.String()+":"+rfTypeName(req.Type), fmt.Sprintf("%s: response %d (to %s) does not decode: %v (% x)", label, i, req, perr, vfTrimB(body, 48)), witness())
				break
			}
			if dupIDs && perr == nil {
				got := ""
				switch p.Type {
				case rfAttrs:
					got = fmt.Sprintf("size=%d", p.Attrs.Size)
				case rfData:
					got = fmt.Sprintf("data=%x", p.Data)
				default:
					got = p.String()
				}
				if p.ID != req.ID || got != expect[i] {
					u.Violation("order-with-duplicate-ids:"+kind.String(), fmt.Sprintf("%s: response %d (%s) is not the answer to request %d (%s): requests sharing an id were answered out of arrival order", label, i, p, i, req), witness())
					break
				}
				continue
			}
			if p.ID != req.ID {
				// find where the expected id went
				where := "never"
				for j, b2 := range resp {
					if q, e2 := vfParse(b2, false); e2 == nil && q.ID == req.ID {
						where = fmt.Sprintf("at position %d", j)
						break
					}
				}
				u.Violation("order-or-id:"+kind.String(), fmt.Sprintf("%s: response %d carries id %d (%s) but request %d was %s; the expected id appears %s", label, i, p.ID, p, i, req, where), witness())
				break
			}
			if !vfLegalReply(req.Type, p.Type) {
				u.Violation("illegal-reply-type:"+kind.String()+":"+rfTypeName(req.Type)+"->"+rfTypeName(p.Type), fmt.Sprintf("%s: request %s answered with %s", label, req, p), witness())
			}
			if p.Type == rfStatus && p.Code == rfOK {
				switch req.Type {
				case rfOpen, rfOpendir, rfRead, rfReaddir, rfReadlink, rfRealpath, rfLstat, rfFstat, rfStat:
					// success of these requests is a HANDLE / DATA / NAME / ATTRS reply; a bare "OK" answers a
					// question that was not asked (e.g. a READ carried out as something else)
					u.Violation("illegal-reply-type:"+kind.String()+":"+rfTypeName(req.Type)+"->STATUS-OK", fmt.Sprintf("%s: request %s answered with %s", label, req, p), witness())
				}
			}
			if p.Type == rfData && req.Type == rfRead && uint32(len(p.Data)) > req.Len {
				u.Violation("data-longer-than-requested:"+kind.String(), fmt.Sprintf("%s: %s answered with %d bytes", label, req, len(p.Data)), witness())
			}
		}
		inv, sig, ready := vfCompletionStats(hooks.Events())
		u.Count("completion_inversions", int64(inv))
		u.Count("pm_ready_events", int64(ready))
		if inv > 0 {
			u.Count("programs_with_inversions", 1)
		}
		u.SetAdd("completion_order_signatures", fmt.Sprintf("%x", sig))
		if pi == 0 {
			u.Sample(map[string]any{"config": label, "requests": len(prog), "completion_inversions_repaired": inv, "first_requests": fmt.Sprint(strings.Join(func() []string {
				var l []string
				for i, p := range prog {
					if i < 5 {
						l = append(l, p.String())
					}
				}
				return l
			}(), " ; "))})
		}
		hooks.Uninstall()
		if msg := rs.End(120 * time.Second); msg != "" {
			u.Violation("serve-end:"+kind.String(), label+": "+msg, witness())
		}
		if kind == vfOS {
			vfChmodAll(e.dir)
			os.RemoveAll(e.dir)
		}
	}
	if kind == vfRS {
		c02ReusedReplyObjects(u, alloc)
	}
}

// c02ReusedReplyObjects: a handler that hands out the same reply objects again and again (one *StatVFS value, one
// lister, one os.FileInfo for every call). Requests are sent one at a time, each after the previous reply has
// arrived, so the handler's object is never in use twice: every reply carries the id of its own request.
func c02ReusedReplyObjects(u *vfUnit, alloc bool) {
	store := vfNewStore()
	store.Put("/file", []byte("0123456789"))
	store.Mkdir("/dir")
	store.Put("/dir/x", []byte("x"))
	store.SharedReplies = true
	rs, err := vfRawConnect(vfSrvCfg{Kind: vfRS, Alloc: alloc, H: store.Handlers(vfHandlerOpt{OpenFile: true, CmdAll: true, ListAll: true})}, vfPipeOpts{}, true)
	if err != nil {
		u.Inconclusive("connect: %v", err)
		return
	}
	label := fmt.Sprintf("RequestServer/alloc=%v/reused-reply-objects", alloc)
	id := uint32(40 + u.Index)
	for round := 0; round < 3; round++ {
		for _, req := range []vfPkt{
			{Type: rfExtended, Ext: "statvfs@openssh.com", Path: "/"},
			{Type: rfStat, Path: "/file"},
			{Type: rfLstat, Path: "/file"},
			{Type: rfRealpath, Path: "/dir"},
		} {
			id += 1 + uint32(round)
			req.ID = id
			resp, err := rs.R.Phase(60*time.Second, req)
			u.Count("requests_answered_from_reused_objects", 1)
			if err != nil || len(resp) != 1 {
				u.Violation("missing-response:RequestServer:reused-objects", fmt.Sprintf("%s: %s answered %v (%v)", label, req, resp, err), nil)
				rs.End(60 * time.Second)
				return
			}
			if resp[0].ID != id || resp[0].Type == rfStatus {
				u.Violation("response-id:RequestServer:reused-objects", fmt.Sprintf("%s: request %s was answered with %s", label, req, resp[0]), nil)
			}
		}
	}
	if msg := rs.End(60 * time.Second); msg != "" {
		u.Violation("serve-end:RequestServer", label+": "+msg, nil)
	}
}
