#!/bin/bash
# tools/seedbatch.sh <root> <ID>... : evaluates <root>/<ID>/SEED/{A,B,C} with seedcheck and prints compact results
# (properties in parallel, 4 at a time; the variants of one property one after the other)
ROOT=$1; shift
cd "$(dirname "$0")/.."
one() {
  ROOT=$1; id=$2
  for v in A B C; do
    sd=$ROOT/$id/SEED/$v; [ -f $sd/patch.diff ] || continue
    out=$(tools/seedcheck.sh $id $sd 2>&1)
    suite=$(echo "$out" | grep -a -c "^FAIL\|^--- FAIL" )
    res=$(echo "$out" | grep -a RESULT)
    key=$(echo "$out" | grep -a "key=" | head -2 | cut -c1-220 | tr '\n' ' ')
    echo "$id/$v $res suite_or_demo_fail_lines=$suite :: $key"
  done
}
export -f one
printf '%s\n' "$@" | xargs -P ${SEED_PAR:-4} -I{} bash -c "one $ROOT {}"
