#!/bin/bash
# tools/seeded_par.sh [tier] [par] — like tools/seeded_all.sh, but each stored change is applied to its own scratch
# copy of the committed tree of /repo (git archive HEAD; VERIF_REPO points the check at it), so that several
# can be evaluated side by side and /repo itself stays untouched. One line per seed: detected / MISSED.
TIER=${1:-quick}; PAR=${2:-5}
cd "$(dirname "$0")/.."
one() {
  d=$1; TIER=$2
  name=$(basename "$d"); id=$(python3 -c "import json;m=json.load(open('$d/meta.json'));print(m.get('check_with',m['property']))")
  D=$(mktemp -d /tmp/vfpar-XXXXXX); mkdir -p "$D/sftp"
  git -C /repo archive HEAD | tar -x -C "$D/sftp"
  ( cd "$D/sftp" && patch -p1 -s < "$OLDPWD/$d/patch.diff" ) || { echo "$name: patch does not apply"; rm -rf "$D"; return; }
  out=$(VERIF_REPO="$D/sftp" ./check "$id" --tier "$TIER" 2>&1); rc=$?
  rm -rf "$D"
  first=$(echo "$out" | grep -a "key=" | head -1 | cut -c1-160)
  if [ $rc -eq 1 ]; then echo "$name: detected by $id ($first)"; else echo "$name: MISSED by $id rc=$rc"; fi
}
export -f one
# SEEDS=<file with one stored name per line> restricts the run to those
if [ -n "$SEEDS" ]; then list() { sed 's#^#seeded/#' "$SEEDS"; }; else list() { ls -d seeded/*/ | sed 's#/$##'; }; fi
list | xargs -P "$PAR" -I{} bash -c "one {} $TIER"
git checkout -- evidence 2>/dev/null
