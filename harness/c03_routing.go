//go:build verif

package sftp

// C03 — Each client call gets the reply to its own request.
// A scripted peer computes a result that is unique to every request (derived from
// its path / handle / offset) and answers the outstanding set in seeded
// permutations; many goroutines share one Client and shared Files and compare every
// result with the model. A tap on the request stream checks that every request
// is one contiguous well-formed frame and that ids in flight are pairwise distinct.

import (
	"bytes"
	"context"
	"fmt"
	"io"
	"os"
	"runtime"
	"strings"
	"sync"
	"sync/atomic"
	"testing"
	"time"
)

func TestVerifC03(t *testing.T) {
	vfMain(t, vfCheck{
		ID: "C03", Level: "exploration",
		Rule:        "per scenario 1..32 goroutines share one Client (and 3 shared Files) and issue seeded mixes of Stat/Lstat/ReadLink/RealPath/Mkdir/Remove/Rename/Open+Close/File.ReadAt/WriteAt/Stat incl. multi-chunk transfers; the peer holds K in 2..24 replies and releases them in seeded order (all shuffled when the client goes idle); packet size and per-file concurrency vary; one scenario in 8 starts the request id counter just below 2^32; bounded and unbounded transports; delays at the register/deliver hooks. A class is (goroutines, K, P, op kind); non-trivial when replies were really delivered out of request order.",
		Assumptions: []string{"the scripted peer is the model: its result for a request is a pure function of the request", "race detector on"},
		Units: func(tier vfTier, seed uint64) int {
			if tier == vfThorough {
				return 480
			}
			return 24
		},
		Shards: func(tier vfTier) int {
			if tier == vfThorough {
				return 14
			}
			return 8
		},
		Floors: map[string]int64{"calls_checked": 5000, "replies_out_of_order": 1000, "scenarios": 100, "max_ids_in_flight": 8, "scenarios_crossing_id_wrap": 1},
		Run:    c03Run,
	})
}

func c03Run(u *vfUnit) {
	r := u.Rng
	for si := 0; si < 5; si++ {
		nG := []int{1, 2, 4, 8, 16, 32}[(si+u.Index)%6]
		K := 2 + r.Intn(23)
		P := []int{7, 64, 1000, 32768}[(si+u.Index/2)%4]
		C := []int{1, 2, 3, 64}[(si+u.Index/3)%4]
		wrap := (u.Index*5+si)%8 == 0
		buf := []int{0, 4096}[(si+u.Index)%2]
		label := fmt.Sprintf("goroutines=%d/K=%d/P=%d/C=%d/wrap=%v/buf=%d", nG, K, P, C, wrap, buf)
		model := &vfModel{handles: map[string]uint64{}, writes: map[string][]byte{}, inflight: map[uint32]bool{}}
		shortReads := si == 4
		if shortReads {
			// short DATA replies are only legal where the client does not equate them with EOF: sequential reads
			model.short = r.Fork()
			label += "/short-reads"
		}
		peer := &vfPeer{HoldK: K, Rng: r.Fork(), Handler: model.handler,
			VersionFrame: vfPkt{Type: rfVersion, Version: 3, Exts: [][2]string{{"fsync@openssh.com", "1"}}}.Frame(),
			OnRequest: func(req vfPkt, raw []byte, perr error) {
				model.mu.Lock()
				defer model.mu.Unlock()
				if perr != nil {
					model.badFrame = fmt.Sprintf("request frame does not decode: %v (% x)", perr, vfTrimB(raw, 40))
					return
				}
				if _, err := vfParse(raw, true); err != nil {
					model.badFrame = fmt.Sprintf("request frame is not exactly one packet: %v (% x)", err, vfTrimB(raw, 40))
				}
				if req.Type == rfInit {
					return
				}
				if model.inflight[req.ID] {
					model.dupID = fmt.Sprintf("request id %d (%s) written while another request with that id is in flight", req.ID, req)
				}
				model.inflight[req.ID] = true
				if len(model.inflight) > model.maxIn {
					model.maxIn = len(model.inflight)
				}
			},
			OnReply: func(id uint32) {
				model.mu.Lock()
				delete(model.inflight, id)
				model.mu.Unlock()
			},
		}
		hooks := vfInstallHooks(vfHookCfg{Seed: r.Uint64(), NoLog: true, MaxSleepUs: 100, DelayPct: map[int]int{vhCliAfterRegister: 20, vhCliBeforeDeliver: 20}})
		c, _, _, ce, err := vfPeerClient(peer, vfPipeOpts{Buf: buf}, MaxPacketUnchecked(P), MaxConcurrentRequestsPerFile(C), UseConcurrentWrites(si%2 == 0), UseConcurrentReads(!shortReads))
		if err != nil {
			hooks.Uninstall()
			u.Inconclusive("connect: %v", err)
			return
		}
		if wrap {
			atomic.StoreUint32(&c.nextid, 0xFFFFFFFF-uint32(20+r.Intn(200)))
			u.Count("scenarios_crossing_id_wrap", 1)
		}
		// shared files
		var shared []*File
		for k := 0; k < 3; k++ {
			f, err := c.OpenFile(fmt.Sprintf("/f/%d", 100+k), os.O_RDWR)
			if err != nil {
				u.Violation("open-failed", label+": "+err.Error(), nil)
				continue
			}
			shared = append(shared, f)
		}
		var calls, bad, cancelled atomic.Int64
		var firstBad atomic.Value
		report := func(kind, what string) {
			bad.Add(1)
			firstBad.CompareAndSwap(nil, kind+"\x00"+what)
		}
		var wg sync.WaitGroup
		for g := 0; g < nG; g++ {
			wg.Add(1)
			go func(g int) {
				defer wg.Done()
				rr := vfNewRand(uint64(u.Index)*1000 + uint64(si)*100 + uint64(g))
				perG := 240 / nG
				if perG < 12 {
					perG = 12
				}
				for it := 0; it < perG; it++ {
					n := uint64(g)*100000 + uint64(it)*13 + uint64(rr.Intn(7))
					calls.Add(1)
					switch op := rr.Intn(16); op {
					case 12: // a call abandoned through its context while its request is outstanding
						ctx, cancel := context.WithCancel(context.Background())
						cdone := make(chan struct{})
						go func() {
							// cancel soon after the request went out; the reply arrives later (the peer holds it)
							for k := 0; k < 1+rr.Intn(20); k++ {
								runtime.Gosched()
							}
							cancel()
							close(cdone)
						}()
						ents, err := c.ReadDirContext(ctx, fmt.Sprintf("/d/%d", n))
						<-cdone
						cancelled.Add(1)
						if err == nil && len(ents) != 0 {
							report("ReadDirContext", fmt.Sprintf("ReadDirContext(/d/%d) returned %d entries for an empty listing", n, len(ents)))
						}
					case 0:
						fi, err := c.Stat(fmt.Sprintf("/s/%d", n))
						if err != nil || uint64(fi.Size()) != vfModelSize(n) || fi.ModTime().Unix() != int64(uint32(n+7)) || fi.Mode().Perm() != 0o644 {
							report("Stat", fmt.Sprintf("Stat(/s/%d) returned %v err %v; the reply to this request carries size %d mtime %d", n, fi, err, vfModelSize(n), n+7))
						}
					case 1:
						fi, err := c.Lstat(fmt.Sprintf("/s/%d", n))
						if err != nil || uint64(fi.Size()) != vfModelSize(n)+1 || fi.ModTime().Unix() != int64(uint32(n+9)) {
							report("Lstat", fmt.Sprintf("Lstat(/s/%d) returned size %v err %v, want size %d", n, fi, err, vfModelSize(n)+1))
						}
					case 2:
						s, err := c.ReadLink(fmt.Sprintf("/l/%d", n))
						if err != nil || s != fmt.Sprintf("/target/%d", n) {
							report("ReadLink", fmt.Sprintf("ReadLink(/l/%d) = %q, %v", n, s, err))
						}
					case 3:
						s, err := c.RealPath(fmt.Sprintf("/r/%d", n))
						if err != nil || s != fmt.Sprintf("/real/%d", n) {
							report("RealPath", fmt.Sprintf("RealPath(/r/%d) = %q, %v", n, s, err))
						}
					case 4:
						err := c.Mkdir(fmt.Sprintf("/m/%d", n))
						if (n%3 == 0) != (err != nil) || (err != nil && !strings.Contains(err.Error(), fmt.Sprintf("mk-%d", n))) {
							report("Mkdir", fmt.Sprintf("Mkdir(/m/%d) = %v", n, err))
						}
					case 5:
						err := c.Rename(fmt.Sprintf("/a/%d", n), "/b/x")
						if (n%4 == 1) != (err != nil) {
							report("Rename", fmt.Sprintf("Rename(/a/%d) = %v", n, err))
						}
					case 6, 7, 8: // ReadAt on a shared file, single- and multi-chunk
						if len(shared) == 0 {
							continue
						}
						k := rr.Intn(len(shared))
						fn := uint64(100 + k)
						size := int(vfModelSize(fn))
						off := rr.Intn(size)
						l := 1 + rr.Intn(min(size, 5*P+3))
						bufr := bytes.Repeat([]byte{0xEE}, l)
						nn, err := shared[k].ReadAt(bufr, int64(off))
						want := min(l, size-off)
						if nn != want || (want == l && err != nil) || (want < l && err != io.EOF) || !bytes.Equal(bufr[:nn], vfPattern(fn, int64(off), nn)) {
							report("ReadAt", fmt.Sprintf("ReadAt(file %d, off %d, len %d) = (%d, %v): bytes differ from that file's content at that offset at %d", fn, off, l, nn, err, vfFirstDiff(bufr[:min(nn, l)], vfPattern(fn, int64(off), min(nn, l)))))
						}
					case 9, 13, 14: // WriteAt on a shared file (13, 14: one packet, any offset: about one in seven is refused by the peer)
						if len(shared) == 0 {
							continue
						}
						k := rr.Intn(len(shared))
						fn := uint64(100 + k)
						off := int64(rr.Intn(4000)) * 7 // never hits the failing residue 3 unless chunk offsets do
						l := 1 + rr.Intn(3*P)
						if op != 9 {
							// concurrent single-packet writes on one File whose outcomes differ (success / a failure naming its offset)
							off, l = int64(rr.Intn(28000)), 1+rr.Intn(P)
						}
						data := vfPattern(fn+1000, off, l)
						nn, err := shared[k].WriteAt(data, off)
						// expected: the lowest chunk offset with off%7==3 fails
						wantFail := int64(-1)
						for o := off; o < off+int64(l); o += int64(P) {
							if o%7 == 3 {
								wantFail = o
								break
							}
						}
						if wantFail < 0 {
							if err != nil || nn != l {
								report("WriteAt", fmt.Sprintf("WriteAt(file %d, off %d, len %d) = (%d, %v), want success", fn, off, l, nn, err))
							}
						} else if err == nil || !strings.Contains(err.Error(), fmt.Sprintf("wr-%d", wantFail)) {
							report("WriteAt", fmt.Sprintf("WriteAt(file %d, off %d, len %d) = (%d, %v), want the error of the chunk at %d", fn, off, l, nn, err, wantFail))
						}
					case 15: // File.Sync on a shared file (the peer advertises the extension): a request like any other, with an id of its own
						if len(shared) == 0 {
							continue
						}
						if err := shared[rr.Intn(len(shared))].Sync(); err != nil {
							report("File.Sync", fmt.Sprintf("Sync of a shared file = %v", err))
						}
					case 10: // File.Stat on a shared file
						if len(shared) == 0 {
							continue
						}
						k := rr.Intn(len(shared))
						fi, err := shared[k].Stat()
						if err != nil || uint64(fi.Size()) != vfModelSize(uint64(100+k)) {
							report("File.Stat", fmt.Sprintf("Stat of shared file %d = %v, %v", 100+k, fi, err))
						}
					case 11: // private open / read all / close
						fn := n
						f, err := c.Open(fmt.Sprintf("/f/%d", fn))
						if err != nil {
							report("Open", err.Error())
							continue
						}
						var w bytes.Buffer
						nn, err := f.WriteTo(&w)
						if err != nil || nn != int64(vfModelSize(fn)) || !bytes.Equal(w.Bytes(), vfPattern(fn, 0, int(vfModelSize(fn)))) {
							report("WriteTo", fmt.Sprintf("WriteTo(file %d) = (%d, %v); content differs at %d", fn, nn, err, vfFirstDiff(w.Bytes(), vfPattern(fn, 0, int(vfModelSize(fn))))))
						}
						f.Close()
					}
				}
			}(g)
		}
		// every second scenario: a second Client of the same process (own connection, own peer) is busy at the
		// same time; what one session sends must not depend on another session's traffic
		var stop2 chan struct{}
		var done2 chan string
		if si%2 == 1 {
			stop2 = make(chan struct{})
			done2 = c03SecondClient(u, r.Fork(), stop2)
			u.Count("scenarios_with_second_client", 1)
		}
		done := vfGo(func() { wg.Wait() })
		if stop2 != nil {
			go func() { <-done; close(stop2) }()
		}
		w := map[string]any{"scenario": label, "unit": u.Index, "scenario_index": si}
		if wv, dump := vfAwait(done, 180*time.Second); wv != vfDone {
			if wv == vfStuck {
				u.Violation("calls-hang", fmt.Sprintf("%s: callers never return although the peer answered everything it received\n%s", label, vfTrim(dump, 3000)), w)
			} else {
				u.Inconclusive("%s: wall-clock cap", label)
			}
			hooks.Uninstall()
			ce.Close()
			peer.Stop()
			return
		}
		for _, f := range shared {
			f.Close()
		}
		if done2 != nil {
			if msg := <-done2; msg != "" {
				u.Violation("second-client", label+": the second Client running beside this one: "+msg, w)
			}
		}
		hooks.Uninstall()
		st := peer.Stats()
		peer.Stop()
		cd := vfGo(func() { c.Close() })
		if wv, dump := vfAwait(cd, 60*time.Second); wv != vfDone {
			u.Violation("close-hang", label+": Client.Close does not return\n"+vfTrim(dump, 2000), w)
		}
		ce.Close()
		u.Eval(fmt.Sprintf("g=%d/K=%d/P=%d/wrap=%v", nG, K, P, wrap))
		u.Count("scenarios", 1)
		u.Count("calls_checked", calls.Load())
		u.Count("calls_abandoned_by_context", cancelled.Load())
		u.Count("replies_out_of_order", int64(st.OutOfOrder))
		u.Max("max_ids_in_flight", int64(model.maxIn))
		u.Max("max_replies_held", int64(st.MaxHeld))
		if v := firstBad.Load(); v != nil {
			parts := strings.SplitN(v.(string), "\x00", 2)
			u.Violation("misrouted-or-wrong-result:"+parts[0], fmt.Sprintf("%s: %d of %d calls returned something else than the reply to their own request; first: %s", label, bad.Load(), calls.Load(), parts[1]), w)
		}
		model.mu.Lock()
		if model.dupID != "" {
			u.Violation("duplicate-id-in-flight", label+": "+model.dupID, w)
		}
		if model.badFrame != "" {
			u.Violation("request-frame-corrupt", label+": "+model.badFrame, w)
		}
		model.mu.Unlock()
		if si == 0 {
			u.Sample(map[string]any{"scenario": label, "calls": calls.Load(), "replies_out_of_order": st.OutOfOrder, "max_ids_in_flight": model.maxIn})
		}
	}
	c03CloseRace(u)
	c03WriteReportedFailed(u)
}

// c03CloseRace: Close while other goroutines are in the middle of payload-carrying requests on a transport
// that takes bytes slowly. Whatever reaches the wire before the connection ends must still be whole
// packets: the request stream may end between two frames, never inside one.
func c03CloseRace(u *vfUnit) {
	r := u.Rng.Fork()
	for round := 0; round < 4; round++ {
		ce, se := vfPipe(vfPipeOpts{Buf: 48})
		var fr vfFramer
		var mu sync.Mutex
		writes := 0
		peerDone := make(chan struct{})
		go func() {
			defer close(peerDone)
			buf := make([]byte, 16+r.Intn(40))
			for {
				n, err := se.Read(buf)
				for k := 0; k < 3; k++ {
					runtime.Gosched() // a peer that takes its time
				}
				if n > 0 {
					mu.Lock()
					frames := fr.Feed(buf[:n])
					mu.Unlock()
					for _, b := range frames {
						q, perr := vfParse(b, true)
						if perr != nil {
							continue
						}
						switch q.Type {
						case rfInit:
							se.Write(vfPkt{Type: rfVersion, Version: 3}.Frame())
						case rfOpen:
							se.Write(vfPkt{Type: rfHandle, ID: q.ID, Handle: "h"}.Frame())
						case rfWrite:
							mu.Lock()
							writes++
							mu.Unlock()
							se.Write(vfStatusFrame(q.ID, rfOK, ""))
						default:
							se.Write(vfStatusFrame(q.ID, rfOK, ""))
						}
					}
				}
				if err != nil {
					return
				}
			}
		}()
		c, err := vfNewClient(ce, MaxPacketUnchecked(2000))
		if err != nil {
			u.Inconclusive("close-race connect: %v", err)
			ce.ForceClose()
			se.ForceClose()
			return
		}
		f, err := c.OpenFile("/close-race", os.O_RDWR)
		if err != nil {
			u.Violation("open-failed", "close-race: "+err.Error(), nil)
			return
		}
		var wg sync.WaitGroup
		for g := 0; g < 3; g++ {
			wg.Add(1)
			go func(g int) {
				defer wg.Done()
				data := bytes.Repeat([]byte{byte('a' + g)}, 600+g*300)
				for it := 0; it < 30; it++ {
					if _, err := f.WriteAt(data, int64(it*2000)); err != nil {
						return
					}
				}
			}(g)
		}
		// let a few writes through, then close in the middle of the traffic
		for spin := 0; spin < 200000; spin++ {
			mu.Lock()
			w := writes
			mu.Unlock()
			if w >= 2+round {
				break
			}
			runtime.Gosched()
		}
		label := fmt.Sprintf("close-race/round=%d", round)
		if w, dump := vfAwait(vfGo(func() { c.Close(); wg.Wait() }), 120*time.Second); w != vfDone {
			if w == vfStuck {
				u.Violation("close-hang", label+": Close / the writers do not return\n"+vfTrim(dump, 2000), nil)
			} else {
				u.Inconclusive("%s: wall-clock cap", label)
			}
			ce.ForceClose()
			se.ForceClose()
			return
		}
		ce.ForceClose()
		if w, _ := vfAwait(peerDone, 60*time.Second); w != vfDone {
			se.ForceClose()
			<-peerDone
		}
		se.ForceClose()
		u.Count("close_races_on_the_request_stream", 1)
		mu.Lock()
		pending, bad := fr.Pending(), fr.Bad
		mu.Unlock()
		if pending > 0 || bad {
			u.Violation("request-frame-torn-at-close", fmt.Sprintf("%s: the request stream ended inside a packet (%d bytes of an unfinished frame, framing broken: %v): a request reached the wire in part", label, pending, bad), nil)
		}
	}
}

// c03WriteReportedFailed: the transport reports one write of a one-piece request as failed, once (nothing or all of
// it delivered; the value drawn from the pool of failure values) and keeps working. Whatever the client makes of
// it: every request id is on the wire at most once, every frame is one whole packet, the failing call returns,
// and every later call that succeeds got the reply to its own request.
func c03WriteReportedFailed(u *vfUnit) {
	pool := vfFaultPool()
	for k := 0; k < 6; k++ {
		pi := (u.Index*6 + k) % (2 * len(pool))
		ferr, full := pool[pi%len(pool)], pi >= len(pool)
		label := fmt.Sprintf("write-reported-failed(%v, delivered=%v)", ferr, full)
		model := &vfModel{handles: map[string]uint64{}, writes: map[string][]byte{}, inflight: map[uint32]bool{}}
		seen := map[uint32]int{}
		peer := &vfPeer{Handler: model.handler,
			OnRequest: func(req vfPkt, raw []byte, perr error) {
				model.mu.Lock()
				defer model.mu.Unlock()
				if perr != nil {
					model.badFrame = fmt.Sprintf("request frame does not decode: %v (% x)", perr, vfTrimB(raw, 40))
				} else if _, err := vfParse(raw, true); err != nil {
					model.badFrame = fmt.Sprintf("request frame is not exactly one packet: %v (% x)", err, vfTrimB(raw, 40))
				} else if req.Type != rfInit {
					seen[req.ID]++
				}
			}}
		c, _, ctl, ce, err := vfPeerClient(peer, vfPipeOpts{})
		if err != nil {
			u.Inconclusive("connect: %v", err)
			return
		}
		problem := ""
		run := func() {
			for it := 0; it < 9 && problem == ""; it++ {
				if it == 3 {
					ctl.TransientFailWrite(vfC2S, 1, ferr, full)
				}
				n := uint64(7000 + k*100 + it)
				fi, err := c.Stat(fmt.Sprintf("/f/%d", n))
				if err == nil && uint64(fi.Size()) != vfModelSize(n) {
					problem = fmt.Sprintf("Stat(/f/%d) after the failure report returned size %d, the peer answered %d for that name", n, fi.Size(), vfModelSize(n))
				}
			}
		}
		if w, dump := vfAwait(vfGo(run), 60*time.Second); w != vfDone {
			if w == vfStuck {
				u.Violation("calls-hang-after-write-error", label+": a call does not return\n"+vfTrim(dump, 2000), nil)
			} else {
				u.Inconclusive("%s: wall-clock cap", label)
			}
			ce.Close()
			peer.Stop()
			return
		}
		vfAwait(vfGo(func() { c.Close() }), 60*time.Second)
		peer.Stop()
		model.mu.Lock()
		if model.badFrame != "" && problem == "" {
			problem = "request stream corrupt: " + model.badFrame
		}
		for id, n := range seen {
			if n > 1 && problem == "" {
				problem = fmt.Sprintf("request id %d is on the wire %d times", id, n)
			}
		}
		model.mu.Unlock()
		if problem != "" {
			u.Violation("write-reported-failed", label+": "+problem, nil)
		}
		u.Count("sessions_with_a_write_reported_failed", 1)
	}
}

// c03SecondClient: another Client with its own scripted peer; two goroutines issue Stat/Lstat/ReadLink with long
// names of their own and compare every result; the peer checks that every request frame is exactly one packet.
func c03SecondClient(u *vfUnit, r *vfRand, stop chan struct{}) chan string {
	out := make(chan string, 1)
	model := &vfModel{handles: map[string]uint64{}, writes: map[string][]byte{}, inflight: map[uint32]bool{}}
	peer := &vfPeer{HoldK: 2 + r.Intn(6), Rng: r.Fork(), Handler: model.handler,
		OnRequest: func(req vfPkt, raw []byte, perr error) {
			model.mu.Lock()
			defer model.mu.Unlock()
			if perr != nil {
				model.badFrame = fmt.Sprintf("request frame does not decode: %v (% x)", perr, vfTrimB(raw, 40))
			} else if _, err := vfParse(raw, true); err != nil {
				model.badFrame = fmt.Sprintf("request frame is not exactly one packet: %v (% x)", err, vfTrimB(raw, 40))
			} else if req.Type != rfInit && req.Path != "" && !strings.HasPrefix(req.Path, "/second-session/") {
				model.badFrame = fmt.Sprintf("request %s carries a name this session never used", req)
			}
		}}
	c, _, _, ce, err := vfPeerClient(peer, vfPipeOpts{})
	if err != nil {
		out <- ""
		return out
	}
	var first atomic.Value
	var wg sync.WaitGroup
	for g := 0; g < 2; g++ {
		wg.Add(1)
		go func(g int) {
			defer wg.Done()
			pad := strings.Repeat("p", 40+g*37)
			for it := 0; ; it++ {
				select {
				case <-stop:
					return
				default:
				}
				n := uint64(900000 + g*10000 + it)
				switch it % 3 {
				case 0:
					fi, err := c.Stat(fmt.Sprintf("/second-session/%s/%d", pad, n))
					if err != nil || uint64(fi.Size()) != vfModelSize(n) {
						first.CompareAndSwap(nil, fmt.Sprintf("Stat(%d) = %v, %v", n, fi, err))
						return
					}
				case 1:
					fi, err := c.Lstat(fmt.Sprintf("/second-session/%s/%d", pad, n))
					if err != nil || uint64(fi.Size()) != vfModelSize(n)+1 {
						first.CompareAndSwap(nil, fmt.Sprintf("Lstat(%d) = %v, %v", n, fi, err))
						return
					}
				default:
					s, err := c.ReadLink(fmt.Sprintf("/second-session/%s/%d", pad, n))
					if err != nil || s != fmt.Sprintf("/target/%d", n) {
						first.CompareAndSwap(nil, fmt.Sprintf("ReadLink(%d) = %q, %v", n, s, err))
						return
					}
				}
			}
		}(g)
	}
	go func() {
		msg := ""
		if w, _ := vfAwait(vfGo(func() { <-stop; wg.Wait() }), 300*time.Second); w != vfDone {
			msg = "its calls never return"
		}
		peer.Stop()
		ce.Close()
		if w, _ := vfAwait(vfGo(func() { c.Close() }), 60*time.Second); w != vfDone && msg == "" {
			msg = "its Close never returns"
		}
		if v := first.Load(); v != nil && msg == "" {
			msg = v.(string)
		}
		model.mu.Lock()
		if model.badFrame != "" {
			msg = "request stream corrupt: " + model.badFrame
		}
		model.mu.Unlock()
		out <- msg
	}()
	return out
}
