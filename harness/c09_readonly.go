//go:build verif

package sftp

// C09 — A read-only server never changes the file system.
// Every request is sent to a read-only Server and to a writable twin serving an
// identical copy of a template tree. Oracles: (1) snapshot of the read-only tree
// before vs after EVERY request (decisive); (2) "modifying attempt" is decided
// differentially: if the request changed the twin's tree, the read-only server must
// have answered PERMISSION_DENIED; (3) reading requests must be answered like the
// writable server answers them.

import (
	"fmt"
	"os"
	"path/filepath"
	"sort"
	"strings"
	"testing"
	"time"
)

func TestVerifC09(t *testing.T) {
	vfMain(t, vfCheck{
		ID: "C09", Level: "exploration",
		Rule:        "exhaustive tables: OPEN with all 64 pflag sets x 6 targets x 2 attr variants, SETSTAT/FSETSTAT with all 16 attr-flag subsets x targets, every other request type against existing/missing/dir/symlink targets, every supported extended name plus near-miss and random names, handle sequences (open for read, then WRITE/FSETSTAT through the handle), each with absolute and working-directory-relative paths; thorough adds seeded request sequences without restoring the tree in between. A class is (request type, flags, target, path style).",
		Assumptions: []string{"runs as root; the writable twin is the definition of 'would modify' and of 'keeps working'", "atime is not part of the snapshot"},
		Units:       func(tier vfTier, seed uint64) int { return c09Units(tier) },
		Shards: func(tier vfTier) int {
			if tier == vfThorough {
				return 8
			}
			return 4
		},
		Floors: map[string]int64{"requests": 1800, "modifying_attempts": 300, "open_flag_sets": 64, "attr_flag_subsets": 16, "reading_requests_compared": 200},
		Run:    c09Run,
	})
}

// units: two table units, seeded sequences, and one unit that runs unprivileged (the last)
func c09Units(tier vfTier) int {
	if tier == vfThorough {
		return 2 + 800 + 1
	}
	return 2 + 2 + 1
}

type c09Side struct {
	root string
	rs   *vfRawSession
	id   uint32
	sent int
	hmap map[string]string // symbolic handle -> real handle
}

type c09Env struct {
	u        *vfUnit
	tmpl     string
	ro, rw   *c09Side
	relative bool
	when     time.Time
}

func c09MakeTemplate(dir string, when time.Time) {
	os.MkdirAll(filepath.Join(dir, "d"), 0o755)
	os.MkdirAll(filepath.Join(dir, "e"), 0o755)
	os.WriteFile(filepath.Join(dir, "f"), vfPattern(9, 0, 300), 0o644)
	os.WriteFile(filepath.Join(dir, "d", "x"), vfPattern(8, 0, 50), 0o640)
	os.Symlink("f", filepath.Join(dir, "lf"))
	os.Symlink("missing", filepath.Join(dir, "ld"))
	os.Symlink("d", filepath.Join(dir, "ldir"))
	// a link to a directory somewhere else: "d/up/.." is e, not d (names are resolved by the kernel, not as text)
	os.MkdirAll(filepath.Join(dir, "e", "deep"), 0o755)
	os.WriteFile(filepath.Join(dir, "e", "g"), vfPattern(7, 0, 20), 0o644)
	os.Symlink("../e/deep", filepath.Join(dir, "d", "up"))
	vfFixTimes("", dir, when)
}

func c09Restore(tmpl, root string, when time.Time) {
	ents, _ := os.ReadDir(root)
	for _, e := range ents {
		vfChmodAll(filepath.Join(root, e.Name()))
		os.RemoveAll(filepath.Join(root, e.Name()))
	}
	vfCopyTree(tmpl, root)
	vfFixTimes(tmpl, root, when)
}

func (s *c09Side) path(rel string, relative bool) string {
	if relative {
		return rel
	}
	return filepath.Join(s.root, rel)
}

// c09Req is a request template; paths are tree-relative, handles symbolic ("$h").
type c09Req struct {
	p       vfPkt
	reading bool   // a purely reading request type
	label   string // class label
}

func (e *c09Env) send(s *c09Side, q c09Req) (vfPkt, error) {
	p := q.p
	s.id++
	p.ID = s.id
	// the request id is the client's to choose: every third request carries one of the extreme values
	s.sent++
	if s.sent%3 == 0 {
		p.ID = []uint32{0, 0xFFFFFFFF, 1, 0x80000000, 0}[(s.sent/3)%5]
	}
	fix := func(x string) string {
		if x == "" {
			return x
		}
		if strings.HasPrefix(x, "=") { // verbatim
			return x[1:]
		}
		if strings.HasPrefix(x, "@") { // below the tree's root, text kept as it is (no lexical cleaning on the way)
			if e.relative {
				return x[1:]
			}
			return s.root + "/" + x[1:]
		}
		return s.path(x, e.relative)
	}
	switch p.Type {
	case rfSymlink:
		// first wire string is the target text: leave relative targets verbatim
		p.Path2 = fix(p.Path2)
		if strings.HasPrefix(p.Path, "=") {
			p.Path = p.Path[1:]
		} else {
			p.Path = fix(p.Path)
		}
	default:
		p.Path, p.Path2 = fix(p.Path), fix(p.Path2)
	}
	if strings.HasPrefix(p.Handle, "$") {
		if h, ok := s.hmap[p.Handle]; ok {
			p.Handle = h
		} else {
			p.Handle = "no-such-handle"
		}
	}
	resp, err := s.rs.R.Phase(60*time.Second, p)
	if err != nil {
		return vfPkt{}, err
	}
	return resp[0], nil
}

func (e *c09Env) norm(s *c09Side, p vfPkt) string {
	strip := func(x string) string { return strings.ReplaceAll(x, s.root, "ROOT") }
	switch p.Type {
	case rfStatus:
		return fmt.Sprintf("STATUS %d %s", p.Code, strip(p.Msg))
	case rfHandle:
		return "HANDLE"
	case rfData:
		return fmt.Sprintf("DATA %x", p.Data)
	case rfAttrs:
		a := p.Attrs
		a.Atime = 0
		return fmt.Sprintf("ATTRS %+v", a)
	case rfName:
		var l []string
		for _, n := range p.Names {
			a := n.Attrs
			a.Atime = 0
			l = append(l, fmt.Sprintf("%s|%s|%+v", strip(n.Name), strip(n.Long), a))
		}
		sort.Strings(l)
		return "NAME " + strings.Join(l, ";")
	case rfExtendedReply:
		if p.VFS != nil {
			return fmt.Sprintf("VFS bsize=%d frsize=%d blocks=%d files=%d namemax=%d", p.VFS.Bsize, p.VFS.Frsize, p.VFS.Blocks, p.VFS.Files, p.VFS.Namemax)
		}
		return fmt.Sprintf("EXTREPLY %x", p.ExtData)
	}
	return p.String()
}

// do sends q to both servers and applies the oracles. It returns the replies.
func (e *c09Env) do(q c09Req, openAs string) (ro, rw vfPkt, ok bool) {
	u := e.u
	style := "abs"
	if e.relative {
		style = "rel"
	}
	label := q.label + "/" + style
	u.Eval(label)
	u.Count("requests", 1)
	opts := vfSnapOpts{Mtime: true, DirMtime: true}
	beforeRO := vfSnapshot(e.ro.root, opts)
	beforeRW := vfSnapshot(e.rw.root, opts)
	ro, err1 := e.send(e.ro, q)
	rw, err2 := e.send(e.rw, q)
	if err1 != nil || err2 != nil {
		u.Violation("transport:"+label, fmt.Sprintf("%s: no reply (read-only: %v, writable: %v)", label, err1, err2), map[string]any{"request": q.p.String()})
		return ro, rw, false
	}
	afterRO := vfSnapshot(e.ro.root, opts)
	afterRW := vfSnapshot(e.rw.root, opts)
	w := map[string]any{"request": q.p.String(), "path_style": style, "reply_readonly": ro.String(), "reply_writable": rw.String()}
	if d := beforeRO.Diff(afterRO); len(d) > 0 {
		u.Violation("modified:"+q.label, fmt.Sprintf("read-only server changed the tree on %s (%s): %s; it replied %s", q.p, style, vfTrim(strings.Join(d, " | "), 600), ro), w)
	}
	modifying := len(beforeRW.Diff(afterRW)) > 0
	if modifying {
		u.Count("modifying_attempts", 1)
		if !(ro.Type == rfStatus && ro.Code == rfPermDenied) {
			u.Violation("not-denied:"+q.label, fmt.Sprintf("%s (%s) modifies a writable twin, but the read-only server replied %s instead of PERMISSION_DENIED", q.p, style, ro), w)
		}
	}
	if q.reading {
		u.Count("reading_requests_compared", 1)
		if a, b := e.norm(e.ro, ro), e.norm(e.rw, rw); a != b {
			u.Violation("reading-differs:"+q.label, fmt.Sprintf("reading request %s (%s): read-only server replied %s, writable server %s", q.p, style, vfTrim(a, 300), vfTrim(b, 300)), w)
		}
	}
	if openAs != "" {
		if ro.Type == rfHandle {
			e.ro.hmap[openAs] = ro.Handle
		}
		if rw.Type == rfHandle {
			e.rw.hmap[openAs] = rw.Handle
		}
	}
	return ro, rw, true
}

func (e *c09Env) restore() {
	opts := vfSnapOpts{Mtime: true, DirMtime: true}
	want := vfSnapshot(e.tmpl, opts)
	for _, s := range []*c09Side{e.ro, e.rw} {
		if len(want.Diff(vfSnapshot(s.root, opts))) > 0 {
			c09Restore(e.tmpl, s.root, e.when)
		}
	}
}

func (e *c09Env) closeHandles() {
	for _, name := range []string{"$h", "$d"} {
		if e.ro.hmap[name] != "" || e.rw.hmap[name] != "" {
			// comparable only when both servers issued the handle (the read-only one may have refused the open)
			both := e.ro.hmap[name] != "" && e.rw.hmap[name] != ""
			e.do(c09Req{p: vfPkt{Type: rfClose, Handle: name}, reading: both, label: "CLOSE"}, "")
			delete(e.ro.hmap, name)
			delete(e.rw.hmap, name)
		}
	}
}

func c09NewEnv(u *vfUnit, relative bool) (*c09Env, error) {
	base := u.TempDir()
	tag := "abs"
	if relative {
		tag = "rel"
	}
	e := &c09Env{u: u, tmpl: filepath.Join(base, "tmpl-"+tag), relative: relative, when: time.Unix(1600000000, 0)}
	c09MakeTemplate(e.tmpl, e.when)
	mk := func(name string, readOnly bool) (*c09Side, error) {
		root := filepath.Join(base, name+"-"+tag)
		os.MkdirAll(root, 0o755)
		c09Restore(e.tmpl, root, e.when)
		cfg := vfSrvCfg{Kind: vfOS, ReadOnly: readOnly}
		if relative {
			cfg.WorkDir = root
		}
		rs, err := vfRawConnect(cfg, vfPipeOpts{}, true)
		if err != nil {
			return nil, err
		}
		return &c09Side{root: root, rs: rs, hmap: map[string]string{}, id: 100}, nil
	}
	var err error
	if e.ro, err = mk("ro", true); err != nil {
		return nil, err
	}
	if e.rw, err = mk("rw", false); err != nil {
		return nil, err
	}
	return e, nil
}

func (e *c09Env) end() {
	for _, s := range []*c09Side{e.ro, e.rw} {
		if msg := s.rs.End(60 * time.Second); msg != "" {
			e.u.Violation("serve-end", msg, nil)
		}
	}
}

var c09Targets = []string{"f", "missing", "d", "lf", "ld", "d/x", "nodir/sub/file"} // the last one: missing below missing directories

func c09Table(e *c09Env) {
	u := e.u
	attrsFor := func(sub uint32) vfAttrs {
		return vfAttrs{Flags: sub, Size: 7, UID: 1234, GID: 4321, Perm: 0o100600, Atime: 1500000000, Mtime: 1400000000}
	}
	// 1. OPEN: all 64 pflag sets x targets x attr variants
	for pf := uint32(0); pf < 64; pf++ {
		u.SetAdd("open_flag_sets", fmt.Sprint(pf))
		for _, tgt := range c09Targets {
			for _, af := range []uint32{0, rfAttrPerm} {
				q := c09Req{p: vfPkt{Type: rfOpen, Path: tgt, Pflags: pf, Attrs: attrsFor(af)}, reading: pf == rfRead_, label: fmt.Sprintf("OPEN/pf=%#x/%s/af=%#x", pf, tgt, af)}
				e.do(q, "$h")
				e.closeHandles()
				e.restore()
			}
		}
	}
	// 2. SETSTAT / FSETSTAT: all 16 subsets
	for sub := uint32(0); sub < 16; sub++ {
		u.SetAdd("attr_flag_subsets", fmt.Sprint(sub))
		for _, tgt := range []string{"f", "d", "lf", "missing"} {
			e.do(c09Req{p: vfPkt{Type: rfSetstat, Path: tgt, Attrs: attrsFor(sub)}, label: fmt.Sprintf("SETSTAT/%#x/%s", sub, tgt)}, "")
			e.restore()
		}
		// through a read handle
		e.do(c09Req{p: vfPkt{Type: rfOpen, Path: "f", Pflags: rfRead_}, reading: true, label: "OPEN/read/f"}, "$h")
		e.do(c09Req{p: vfPkt{Type: rfFsetstat, Handle: "$h", Attrs: attrsFor(sub)}, label: fmt.Sprintf("FSETSTAT/%#x/readhandle", sub)}, "")
		e.closeHandles()
		e.restore()
		// through a directory handle
		e.do(c09Req{p: vfPkt{Type: rfOpendir, Path: "d"}, reading: true, label: "OPENDIR/d"}, "$d")
		e.do(c09Req{p: vfPkt{Type: rfFsetstat, Handle: "$d", Attrs: attrsFor(sub)}, label: fmt.Sprintf("FSETSTAT/%#x/dirhandle", sub)}, "")
		e.closeHandles()
		e.restore()
	}
	// 3. every other request type
	one := func(q c09Req) {
		e.do(q, "")
		e.restore()
	}
	// several handles on one path at a time: each is its own (closing one leaves the other alive)
	for _, tgt := range []string{"f", "d"} {
		open := vfPkt{Type: rfOpen, Path: tgt, Pflags: rfRead_}
		use := vfPkt{Type: rfRead, Handle: "$h2", Off: 0, Len: 40}
		if tgt == "d" {
			open = vfPkt{Type: rfOpendir, Path: tgt}
			use = vfPkt{Type: rfReaddir, Handle: "$h2"}
		}
		e.do(c09Req{p: open, reading: true, label: "two-handles/open-1/" + tgt}, "$h1")
		e.do(c09Req{p: open, reading: true, label: "two-handles/open-2/" + tgt}, "$h2")
		e.do(c09Req{p: vfPkt{Type: rfClose, Handle: "$h1"}, reading: true, label: "two-handles/close-1/" + tgt}, "")
		e.do(c09Req{p: use, reading: true, label: "two-handles/use-2/" + tgt}, "")
		e.do(c09Req{p: vfPkt{Type: rfFstat, Handle: "$h2"}, reading: true, label: "two-handles/fstat-2/" + tgt}, "")
		e.do(c09Req{p: open, reading: true, label: "two-handles/open-3/" + tgt}, "$h3")
		e.do(c09Req{p: vfPkt{Type: rfFstat, Handle: "$h3"}, reading: true, label: "two-handles/fstat-3/" + tgt}, "")
		e.do(c09Req{p: vfPkt{Type: rfClose, Handle: "$h2"}, reading: true, label: "two-handles/close-2/" + tgt}, "")
		e.do(c09Req{p: vfPkt{Type: rfClose, Handle: "$h3"}, reading: true, label: "two-handles/close-3/" + tgt}, "")
		e.ro.hmap, e.rw.hmap = map[string]string{}, map[string]string{}
		e.restore()
	}
	// two-name requests whose names are related: the same name twice, the same name spelled differently, and two
	// spellings that are the same text after cleaning but not the same file (".." behind a link to a directory)
	for _, pair := range [][2]string{{"f", "f"}, {"@./f", "f"}, {"@d/../f", "f"}, {"@d/up/../g", "d/g"}, {"d/g", "@d/up/../g"}, {"ldir/x", "d/x"}, {"@d/up/../../f", "f"}, {"@d/up/../g", "@d/up/../g"}} {
		for _, ext := range []string{"posix-rename@openssh.com", "hardlink@openssh.com"} {
			one(c09Req{p: vfPkt{Type: rfExtended, Ext: ext, Path: pair[0], Path2: pair[1]}, label: ext + "/related-names/" + pair[0] + "/" + pair[1]})
		}
		one(c09Req{p: vfPkt{Type: rfRename, Path: pair[0], Path2: pair[1]}, label: "RENAME/related-names/" + pair[0] + "/" + pair[1]})
		one(c09Req{p: vfPkt{Type: rfSymlink, Path: pair[0], Path2: pair[1]}, label: "SYMLINK/related-names/" + pair[0] + "/" + pair[1]})
	}
	for _, tgt := range []string{"f", "d", "e", "lf", "ld", "ldir", "missing", "d/x"} {
		one(c09Req{p: vfPkt{Type: rfRemove, Path: tgt}, label: "REMOVE/" + tgt})
		one(c09Req{p: vfPkt{Type: rfRmdir, Path: tgt}, label: "RMDIR/" + tgt})
		one(c09Req{p: vfPkt{Type: rfMkdir, Path: tgt}, label: "MKDIR/" + tgt})
		one(c09Req{p: vfPkt{Type: rfMkdir, Path: tgt + "new", Attrs: attrsFor(rfAttrPerm)}, label: "MKDIR/new/" + tgt})
		one(c09Req{p: vfPkt{Type: rfStat, Path: tgt}, reading: true, label: "STAT/" + tgt})
		one(c09Req{p: vfPkt{Type: rfLstat, Path: tgt}, reading: true, label: "LSTAT/" + tgt})
		one(c09Req{p: vfPkt{Type: rfReadlink, Path: tgt}, reading: true, label: "READLINK/" + tgt})
		one(c09Req{p: vfPkt{Type: rfRealpath, Path: tgt}, reading: true, label: "REALPATH/" + tgt})
		one(c09Req{p: vfPkt{Type: rfRealpath, Path: tgt + "/../" + tgt}, reading: true, label: "REALPATH/dotdot/" + tgt})
		one(c09Req{p: vfPkt{Type: rfExtended, Ext: "statvfs@openssh.com", Path: tgt}, reading: true, label: "statvfs/" + tgt})
		for _, dst := range []string{"g", "d/x", "e", "f"} {
			one(c09Req{p: vfPkt{Type: rfRename, Path: tgt, Path2: dst}, label: "RENAME/" + tgt + "/" + dst})
			one(c09Req{p: vfPkt{Type: rfExtended, Ext: "posix-rename@openssh.com", Path: tgt, Path2: dst}, label: "posix-rename/" + tgt + "/" + dst})
			one(c09Req{p: vfPkt{Type: rfExtended, Ext: "hardlink@openssh.com", Path: tgt, Path2: dst}, label: "hardlink/" + tgt + "/" + dst})
			one(c09Req{p: vfPkt{Type: rfSymlink, Path: tgt, Path2: dst}, label: "SYMLINK/" + tgt + "/" + dst})
			one(c09Req{p: vfPkt{Type: rfSymlink, Path: "=" + tgt, Path2: dst}, label: "SYMLINK/verbatim/" + tgt + "/" + dst})
		}
		// directory listing
		ro, _, ok := e.do(c09Req{p: vfPkt{Type: rfOpendir, Path: tgt}, reading: true, label: "OPENDIR/" + tgt}, "$d")
		if ok && ro.Type == rfHandle {
			for i := 0; i < 3; i++ {
				e.do(c09Req{p: vfPkt{Type: rfReaddir, Handle: "$d"}, reading: true, label: "READDIR/" + tgt}, "")
			}
		}
		e.do(c09Req{p: vfPkt{Type: rfWrite, Handle: "$d", Off: 0, Data: []byte("zz")}, label: "WRITE/dirhandle/" + tgt}, "")
		e.closeHandles()
		e.restore()
	}
	// 4. handle sequences: open for read, then read / write / fstat through it
	for _, tgt := range []string{"f", "lf", "d/x"} {
		e.do(c09Req{p: vfPkt{Type: rfOpen, Path: tgt, Pflags: rfRead_}, reading: true, label: "OPEN/read/" + tgt}, "$h")
		e.do(c09Req{p: vfPkt{Type: rfRead, Handle: "$h", Off: 0, Len: 100}, reading: true, label: "READ/" + tgt}, "")
		e.do(c09Req{p: vfPkt{Type: rfRead, Handle: "$h", Off: 290, Len: 100}, reading: true, label: "READ/tail/" + tgt}, "")
		e.do(c09Req{p: vfPkt{Type: rfRead, Handle: "$h", Off: 5000, Len: 10}, reading: true, label: "READ/eof/" + tgt}, "")
		e.do(c09Req{p: vfPkt{Type: rfFstat, Handle: "$h"}, reading: true, label: "FSTAT/" + tgt}, "")
		e.do(c09Req{p: vfPkt{Type: rfWrite, Handle: "$h", Off: 0, Data: []byte("overwrite")}, label: "WRITE/readhandle/" + tgt}, "")
		e.do(c09Req{p: vfPkt{Type: rfWrite, Handle: "$h", Off: 1000, Data: []byte("extend")}, label: "WRITE/readhandle/extend/" + tgt}, "")
		e.do(c09Req{p: vfPkt{Type: rfExtended, Ext: "fsync@openssh.com", Handle: "$h"}, label: "fsync/" + tgt}, "")
		e.closeHandles()
		e.restore()
	}
	// writable-twin handle: open read+write (denied on the read-only side), then write with whatever handle exists
	for _, pf := range []uint32{rfRead_ | rfWrite_, rfWrite_, rfWrite_ | rfAppend_} {
		e.do(c09Req{p: vfPkt{Type: rfOpen, Path: "f", Pflags: pf}, label: fmt.Sprintf("OPEN/pf=%#x/f/seq", pf)}, "$h")
		e.do(c09Req{p: vfPkt{Type: rfWrite, Handle: "$h", Off: 0, Data: []byte("overwrite")}, label: fmt.Sprintf("WRITE/after-open-pf=%#x", pf)}, "")
		e.do(c09Req{p: vfPkt{Type: rfFsetstat, Handle: "$h", Attrs: attrsFor(rfAttrSize)}, label: fmt.Sprintf("FSETSTAT/after-open-pf=%#x", pf)}, "")
		e.closeHandles()
		e.restore()
	}
	// bogus handles
	one(c09Req{p: vfPkt{Type: rfWrite, Handle: "=bogus", Data: []byte("x")}, label: "WRITE/bogus"})
	one(c09Req{p: vfPkt{Type: rfRead, Handle: "=bogus", Len: 4}, reading: true, label: "READ/bogus"})
	one(c09Req{p: vfPkt{Type: rfClose, Handle: "=bogus"}, reading: true, label: "CLOSE/bogus"})
	one(c09Req{p: vfPkt{Type: rfFstat, Handle: "=bogus"}, reading: true, label: "FSTAT/bogus"})
	// 5. extended names: supported, near-miss, random
	names := []string{"hardlink@openssh.com", "posix-rename@openssh.com", "statvfs@openssh.com", "fstatvfs@openssh.com", "fsync@openssh.com",
		"hardlink@openssh.co", "HARDLINK@openssh.com", "hardlink@openssh.com ", "posix-rename@openssh.com\x00", "", "x", "copy-data", "lsetstat@openssh.com", "expand-path@openssh.com"}
	for i := 0; i < 20; i++ {
		names = append(names, string(u.Rng.Bytes(1+u.Rng.Intn(30))))
	}
	for _, n := range names {
		w := &rfW{}
		w.str(e.ro.path("f", e.relative))
		w.str(e.ro.path("zz", e.relative))
		q := c09Req{p: vfPkt{Type: rfExtended, Ext: n, Path: "f", Path2: "zz", ExtData: w.b}, label: fmt.Sprintf("EXTENDED/%q", vfTrim(n, 24))}
		if n == "fsync@openssh.com" {
			q.p.Handle = "=1"
		}
		one(q)
	}
	// 6. the same extension requests while the configured (advertised) extension list is reduced: what a
	// server advertises is not what it understands; a peer can send the hidden requests all the same.
	if err := SetSFTPExtensions("statvfs@openssh.com"); err == nil {
		for _, dst := range []string{"g2", "d/x"} {
			one(c09Req{p: vfPkt{Type: rfExtended, Ext: "posix-rename@openssh.com", Path: "f", Path2: dst}, label: "posix-rename/reduced-extension-list/" + dst})
			one(c09Req{p: vfPkt{Type: rfExtended, Ext: "hardlink@openssh.com", Path: "f", Path2: dst}, label: "hardlink/reduced-extension-list/" + dst})
		}
		one(c09Req{p: vfPkt{Type: rfExtended, Ext: "statvfs@openssh.com", Path: "f"}, reading: true, label: "statvfs/reduced-extension-list"})
		u.Count("requests_with_reduced_extension_list", 5)
	}
	SetSFTPExtensions("hardlink@openssh.com", "posix-rename@openssh.com", "statvfs@openssh.com")
	c09Pipelined(e)
}

// c09Pipelined: refusals are answers like any other. A burst of modifying requests, interleaved with
// reading ones, is written to the read-only server without waiting: every modifying request must be
// refused with PERMISSION_DENIED under its own id, in order, the reading ones answered, the tree unchanged.
func c09Pipelined(e *c09Env) {
	u := e.u
	s := e.ro
	opts := vfSnapOpts{Mtime: true, DirMtime: true}
	before := vfSnapshot(s.root, opts)
	var burst []vfPkt
	var modifying []bool
	add := func(p vfPkt, mod bool) {
		s.id++
		p.ID = s.id
		burst = append(burst, p)
		modifying = append(modifying, mod)
	}
	P := func(rel string) string { return s.path(rel, e.relative) }
	for i := 0; i < 12; i++ {
		add(vfPkt{Type: rfMkdir, Path: P(fmt.Sprintf("pm%d", i))}, true)
		add(vfPkt{Type: rfRemove, Path: P("f")}, true)
		add(vfPkt{Type: rfStat, Path: P("f")}, false)
		add(vfPkt{Type: rfRename, Path: P("f"), Path2: P(fmt.Sprintf("pr%d", i))}, true)
		add(vfPkt{Type: rfSetstat, Path: P("f"), Attrs: vfAttrs{Flags: rfAttrPerm, Perm: 0o600}}, true)
		add(vfPkt{Type: rfRmdir, Path: P("d")}, true)
		add(vfPkt{Type: rfLstat, Path: P("d")}, false)
		add(vfPkt{Type: rfSymlink, Path: "t", Path2: P(fmt.Sprintf("ps%d", i))}, true)
	}
	var stream []byte
	for _, p := range burst {
		stream = append(stream, p.Frame()...)
	}
	base := s.rs.R.Count()
	sent := vfGo(func() { s.rs.R.Send(stream) })
	w, dump := s.rs.R.WaitCount(base+len(burst), 120*time.Second)
	<-sent
	u.Count("pipelined_refusals", int64(len(burst)))
	if w != vfDone {
		if w == vfStuck {
			u.Violation("pipelined-refusals-missing", fmt.Sprintf("%d requests pipelined to the read-only server, %d answered, process quiescent\n%s", len(burst), s.rs.R.Count()-base, vfTrim(dump, 2000)), nil)
		} else {
			u.Inconclusive("pipelined refusals: wall-clock cap")
		}
		return
	}
	if got := s.rs.R.Count() - base; got < len(burst) {
		u.Violation("pipelined-refusals-missing", fmt.Sprintf("%d requests pipelined to the read-only server, the session ended after %d responses", len(burst), got), nil)
		return
	}
	for i, body := range s.rs.R.All()[base : base+len(burst)] {
		p, err := vfParse(body, true)
		req := burst[i]
		switch {
		case err != nil || p.ID != req.ID:
			u.Violation("pipelined-refusal-id", fmt.Sprintf("reply %d to %s is %v (%v): not the answer to that request", i, req, p, err), nil)
			return
		case modifying[i] && !(p.Type == rfStatus && p.Code == rfPermDenied):
			u.Violation("not-denied:pipelined/"+rfTypeName(req.Type), fmt.Sprintf("pipelined %s answered %s instead of PERMISSION_DENIED", req, p), nil)
		case !modifying[i] && p.Type != rfAttrs:
			u.Violation("reading-differs:pipelined/"+rfTypeName(req.Type), fmt.Sprintf("pipelined reading request %s answered %s", req, p), nil)
		}
	}
	if d := before.Diff(vfSnapshot(s.root, opts)); len(d) > 0 {
		u.Violation("modified:pipelined", fmt.Sprintf("read-only server changed the tree during a pipelined burst: %s", vfTrim(strings.Join(d, " | "), 600)), nil)
	}
}

// c09Sequences: seeded request sequences without restoring in between (the read-only
// tree must stay equal to the template throughout).
func c09Sequences(e *c09Env, n int) {
	u := e.u
	r := u.Rng
	paths := []string{"f", "d", "e", "lf", "ld", "ldir", "missing", "d/x", "g", "d/y"}
	for i := 0; i < n; i++ {
		a, b := vfPick(r, paths), vfPick(r, paths)
		var q c09Req
		switch r.Intn(14) {
		case 0:
			q = c09Req{p: vfPkt{Type: rfOpen, Path: a, Pflags: uint32(r.Intn(64))}, label: "seq/OPEN"}
			e.do(q, "$h")
			continue
		case 1:
			q = c09Req{p: vfPkt{Type: rfWrite, Handle: "$h", Off: uint64(r.Intn(400)), Data: r.Bytes(1 + r.Intn(40))}, label: "seq/WRITE"}
		case 2:
			q = c09Req{p: vfPkt{Type: rfRead, Handle: "$h", Off: uint64(r.Intn(400)), Len: uint32(r.Intn(100))}, label: "seq/READ"}
		case 3:
			q = c09Req{p: vfPkt{Type: rfClose, Handle: "$h"}, label: "seq/CLOSE"}
			e.do(q, "")
			delete(e.ro.hmap, "$h")
			delete(e.rw.hmap, "$h")
			continue
		case 4:
			q = c09Req{p: vfPkt{Type: rfRemove, Path: a}, label: "seq/REMOVE"}
		case 5:
			q = c09Req{p: vfPkt{Type: rfMkdir, Path: a}, label: "seq/MKDIR"}
		case 6:
			q = c09Req{p: vfPkt{Type: rfRmdir, Path: a}, label: "seq/RMDIR"}
		case 7:
			q = c09Req{p: vfPkt{Type: rfRename, Path: a, Path2: b}, label: "seq/RENAME"}
		case 8:
			q = c09Req{p: vfPkt{Type: rfSymlink, Path: "=" + a, Path2: b}, label: "seq/SYMLINK"}
		case 9:
			q = c09Req{p: vfPkt{Type: rfSetstat, Path: a, Attrs: vfAttrs{Flags: uint32(r.Intn(16)), Size: uint64(r.Intn(500)), UID: 5, GID: 6, Perm: uint32(r.Intn(4096)), Atime: 1, Mtime: 2}}, label: "seq/SETSTAT"}
		case 10:
			q = c09Req{p: vfPkt{Type: rfFsetstat, Handle: "$h", Attrs: vfAttrs{Flags: uint32(r.Intn(16)), Size: uint64(r.Intn(500)), UID: 5, GID: 6, Perm: uint32(r.Intn(4096)), Atime: 1, Mtime: 2}}, label: "seq/FSETSTAT"}
		case 11:
			q = c09Req{p: vfPkt{Type: rfExtended, Ext: "hardlink@openssh.com", Path: a, Path2: b}, label: "seq/hardlink"}
		case 12:
			q = c09Req{p: vfPkt{Type: rfExtended, Ext: "posix-rename@openssh.com", Path: a, Path2: b}, label: "seq/posix-rename"}
		case 13:
			q = c09Req{p: vfPkt{Type: rfStat, Path: a}, label: "seq/STAT"}
		}
		e.do(q, "")
		// the twin diverges on purpose; bring only the twin back every 25 steps
		if i%25 == 24 {
			e.closeHandles()
			c09Restore(e.tmpl, e.rw.root, e.when)
			if d := vfSnapshot(e.tmpl, vfSnapOpts{Mtime: true, DirMtime: true}).Diff(vfSnapshot(e.ro.root, vfSnapOpts{Mtime: true, DirMtime: true})); len(d) > 0 {
				u.Violation("sequence-drift", "read-only tree differs from the template after a request sequence: "+vfTrim(strings.Join(d, " | "), 500), nil)
				c09Restore(e.tmpl, e.ro.root, e.when)
			}
		}
	}
	e.closeHandles()
}

// c09Unprivileged: the purely reading requests again, with the servers (and everything else in the process) running as
// uid/gid 65534 on a tree owned by root: a read-only server serves what the process may read, like the writable twin.
// Needs a cgo-free binary; where the ids cannot be switched the unit says so in its counters and checks nothing.
func c09Unprivileged(u *vfUnit) {
	base := u.TempDir()
	for p, k := base, 0; k < 3 && p != "/" && p != filepath.Clean(os.TempDir()); p, k = filepath.Dir(p), k+1 {
		os.Chmod(p, 0o755)
	}
	e, err := c09NewEnv(u, false)
	if err != nil {
		u.Inconclusive("setup: %v", err)
		return
	}
	defer e.end()
	if err := vfSetEffective(65534, 65534); err != nil {
		u.Count("unprivileged_unavailable", 1)
		return
	}
	defer func() {
		if err := vfSetEffective(0, 0); err != nil {
			panic("cannot regain root: " + err.Error())
		}
	}()
	if _, err := os.Stat(filepath.Join(e.ro.root, "f")); err != nil {
		u.Count("unprivileged_unavailable", 1)
		return
	}
	u.Count("unprivileged_units", 1)
	for _, tgt := range []string{"f", "d/x", "lf", "missing"} {
		e.do(c09Req{p: vfPkt{Type: rfOpen, Path: tgt, Pflags: rfRead_}, reading: true, label: "unprivileged/OPEN/read/" + tgt}, "$h")
		e.do(c09Req{p: vfPkt{Type: rfRead, Handle: "$h", Off: 0, Len: 100}, reading: true, label: "unprivileged/READ/" + tgt}, "")
		e.do(c09Req{p: vfPkt{Type: rfFstat, Handle: "$h"}, reading: true, label: "unprivileged/FSTAT/" + tgt}, "")
		e.closeHandles()
		e.ro.hmap, e.rw.hmap = map[string]string{}, map[string]string{}
		e.do(c09Req{p: vfPkt{Type: rfStat, Path: tgt}, reading: true, label: "unprivileged/STAT/" + tgt}, "")
		e.do(c09Req{p: vfPkt{Type: rfLstat, Path: tgt}, reading: true, label: "unprivileged/LSTAT/" + tgt}, "")
		e.do(c09Req{p: vfPkt{Type: rfReadlink, Path: tgt}, reading: true, label: "unprivileged/READLINK/" + tgt}, "")
	}
	for _, tgt := range []string{"d", "ld", ".", "f"} {
		e.do(c09Req{p: vfPkt{Type: rfOpendir, Path: tgt}, reading: true, label: "unprivileged/OPENDIR/" + tgt}, "$d")
		e.do(c09Req{p: vfPkt{Type: rfReaddir, Handle: "$d"}, reading: true, label: "unprivileged/READDIR/" + tgt}, "")
		e.closeHandles()
		e.ro.hmap, e.rw.hmap = map[string]string{}, map[string]string{}
	}
	// and what modifies stays refused
	e.do(c09Req{p: vfPkt{Type: rfRemove, Path: "f"}, label: "unprivileged/REMOVE/f"}, "")
	e.do(c09Req{p: vfPkt{Type: rfOpen, Path: "f", Pflags: rfWrite_ | rfTrunc_}, label: "unprivileged/OPEN/write/f"}, "")
}

// c09MissingWorkDir: a read-only server configured with a working directory that does not exist. Nothing it is asked
// (reading requests with relative and absolute names, refused modifying ones) makes that directory, or anything else, appear.
func c09MissingWorkDir(u *vfUnit) {
	base := filepath.Join(u.TempDir(), "mw")
	os.MkdirAll(filepath.Join(base, "there"), 0o755)
	os.WriteFile(filepath.Join(base, "there", "f"), []byte("x"), 0o644)
	vfFixTimes("", base, time.Unix(1600000000, 0))
	before := vfSnapshot(base, vfSnapOpts{Mtime: true, DirMtime: true})
	for _, wd := range []string{filepath.Join(base, "not", "there"), filepath.Join(base, "there", "sub"), filepath.Join(base, "there", "f", "below-a-file")} {
		rs, err := vfRawConnect(vfSrvCfg{Kind: vfOS, ReadOnly: true, WorkDir: wd}, vfPipeOpts{}, true)
		if err != nil {
			u.Inconclusive("connect: %v", err)
			return
		}
		id := uint32(20)
		for _, p := range []vfPkt{
			{Type: rfStat, Path: "x"}, {Type: rfLstat, Path: "."}, {Type: rfRealpath, Path: "."}, {Type: rfOpendir, Path: "."}, {Type: rfOpen, Path: "f", Pflags: rfRead_},
			{Type: rfReadlink, Path: "l"}, {Type: rfStat, Path: filepath.Join(base, "there", "f")}, {Type: rfExtended, Ext: "statvfs@openssh.com", Path: "."},
			{Type: rfMkdir, Path: "new"}, {Type: rfOpen, Path: "created", Pflags: rfWrite_ | rfCreat_}, {Type: rfRemove, Path: "f"},
		} {
			id++
			p.ID = id
			resp, err := rs.R.Phase(60*time.Second, p)
			u.Count("requests", 1)
			if err != nil || len(resp) != 1 {
				u.Violation("missing-workdir:no-reply", fmt.Sprintf("working directory %q: %s answered %v (%v)", wd, p, resp, err), nil)
				break
			}
		}
		if msg := rs.End(60 * time.Second); msg != "" {
			u.Violation("serve-end", msg, nil)
		}
		if d := before.Diff(vfSnapshot(base, vfSnapOpts{Mtime: true, DirMtime: true})); len(d) > 0 {
			u.Violation("modified:missing-working-directory", fmt.Sprintf("read-only server with the (missing) working directory %q changed the tree: %s", strings.TrimPrefix(wd, base), vfTrim(strings.Join(d, " | "), 600)), nil)
			break
		}
	}
}

func c09Run(u *vfUnit) {
	syscallUmask()
	if u.Index == c09Units(u.Tier)-1 {
		c09Unprivileged(u)
		c09MissingWorkDir(u)
		return
	}
	switch {
	case u.Index < 2:
		e, err := c09NewEnv(u, u.Index == 1)
		if err != nil {
			u.Inconclusive("setup: %v", err)
			return
		}
		c09Table(e)
		e.end()
		u.Sample(map[string]any{"example": "OPEN pflags=0x9 (READ|CREAT) path=missing sent to read-only and writable twin; snapshots before/after both"})
	default:
		e, err := c09NewEnv(u, u.Index%2 == 1)
		if err != nil {
			u.Inconclusive("setup: %v", err)
			return
		}
		c09Sequences(e, 400)
		e.end()
	}
}
