//go:build verif

package sftp

// C14 — Close waits for the reads and writes sent before it.

import (
	"bytes"
	"fmt"
	"os"
	"path/filepath"
	"runtime"
	"sync"
	"testing"
	"time"
)

func TestVerifC14(t *testing.T) {
	vfMain(t, vfCheck{
		ID: "C14", Level: "exploration",
		Rule:        "per burst: 1..8 handles are opened (phased), then ONE stream write carries for every handle k<=64 WRITEs to disjoint ranges (+ j READs) followed by its CLOSE, interleaved across handles, with no waiting; handler ReadAt/WriteAt sleep 0..2ms and the worker hooks delay rw packets. Oracles: every READ/WRITE status OK, final content contains every write, instrumented handler objects saw no ReadAt/WriteAt in flight at, or after, Close. A class is (server, allocator, handles, depth bucket); non-trivial when reads/writes were still in flight when the dispatcher reached a CLOSE (the barrier had to wait).",
		Assumptions: []string{"race detector on", "order ids are assigned in stream order (INIT=1), which lets the hook log identify the CLOSE packets"},
		Units: func(tier vfTier, seed uint64) int {
			if tier == vfThorough {
				return 4800
			}
			return 24
		},
		Shards: func(tier vfTier) int {
			if tier == vfThorough {
				return 14
			}
			return 8
		},
		Floors: map[string]int64{"bursts": 100, "closes_that_had_to_wait": 50, "rw_requests": 3000},
		Run:    c14Run,
	})
}

// c14ManyForeignHandles: one slow write on a handle, then more than a thousand reads that name other handle strings
// (which the server never issued), then the CLOSE of the first handle, all in one burst: however much traffic lies
// between a write and the close of its handle, the close waits for the write.
func c14ManyForeignHandles(u *vfUnit, alloc bool) {
	store := vfNewStore()
	started := make(chan struct{}, 1)
	release := make(chan struct{})
	store.Delay = func(write bool, off int64) {
		if write && off == 0 {
			select {
			case started <- struct{}{}:
			default:
			}
			<-release
		}
	}
	rs, err := vfRawConnect(vfSrvCfg{Kind: vfRS, Alloc: alloc, H: store.Handlers(vfHandlerOpt{OpenFile: u.Index%16 == 5})}, vfPipeOpts{}, true)
	if err != nil {
		u.Inconclusive("connect: %v", err)
		close(release)
		return
	}
	label := fmt.Sprintf("RequestServer/alloc=%v/write, 1100 reads on other handle strings, close", alloc)
	hr, err := rs.R.Phase(60*time.Second, vfPkt{Type: rfOpen, ID: 2, Path: "/slow", Pflags: rfWrite_ | rfCreat_})
	if err != nil || len(hr) != 1 || hr[0].Type != rfHandle {
		u.Violation("open-failed:RequestServer", fmt.Sprintf("%s: %v %v", label, hr, err), nil)
		close(release)
		rs.End(60 * time.Second)
		return
	}
	h := hr[0].Handle
	var stream []byte
	stream = append(stream, vfPkt{Type: rfWrite, ID: 10, Handle: h, Off: 0, Data: []byte("slowly written")}.Frame()...)
	for i := 0; i < 1100; i++ {
		stream = append(stream, vfPkt{Type: rfRead, ID: uint32(100 + i), Handle: fmt.Sprintf("never-issued-%d", i), Off: 0, Len: 8}.Frame()...)
	}
	stream = append(stream, vfPkt{Type: rfClose, ID: 5000, Handle: h}.Frame()...)
	base := rs.R.Count()
	sent := vfGo(func() { rs.R.Send(stream) })
	// the write is inside the handler object; the reads are answered meanwhile (in order they wait behind the write's
	// reply, so nothing arrives yet); then the write is let go
	if w, _ := vfAwait(vfGo(func() { <-started }), 60*time.Second); w != vfDone {
		u.Violation("burst-stuck:RequestServer", label+": the write never reached the handler object", nil)
	}
	<-sent
	for spin := 0; spin < 20000; spin++ {
		runtime.Gosched()
	}
	time.Sleep(50 * time.Millisecond)
	close(release)
	w, dump := rs.R.WaitCount(base+1102, 120*time.Second)
	if w == vfStuck {
		u.Violation("burst-stuck:RequestServer", label+": responses missing and process quiescent\n"+vfTrim(dump, 2000), nil)
	}
	for _, body := range rs.R.All()[min(base, rs.R.Count()):] {
		p, perr := vfParse(body, true)
		if perr == nil && (p.ID == 10 || p.ID == 5000) && !(p.Type == rfStatus && p.Code == rfOK) {
			u.Violation("pre-close-request-failed:RequestServer:"+map[uint32]string{10: "WRITE", 5000: "CLOSE"}[p.ID], fmt.Sprintf("%s: request id %d was answered %s", label, p.ID, p), nil)
		}
	}
	if msg := rs.End(120 * time.Second); msg != "" {
		u.Violation("serve-end:RequestServer", label+": "+msg, nil)
	}
	u.Count("bursts", 1)
	u.Count("bursts_with_a_thousand_foreign_handles", 1)
	for _, o := range store.Objs() {
		if o.kind == "stat" {
			continue
		}
		if n := o.inflightAtClose.Load(); n > 0 {
			u.Violation("close-concurrent-with-rw", fmt.Sprintf("%s: Close of the handler object for %s ran while %d ReadAt/WriteAt calls were in flight", label, o.path, n), nil)
		}
		if n := o.closes.Load(); n != 1 {
			u.Violation("close-count", fmt.Sprintf("%s: handler object for %s closed %d times", label, o.path, n), nil)
		}
	}
	if got, _ := store.Get("/slow"); string(got) != "slowly written" {
		u.Violation("content-missing-writes:RequestServer", fmt.Sprintf("%s: the file holds %q", label, got), nil)
	}
}

func c14Run(u *vfUnit) {
	r := u.Rng
	kind := vfKind(u.Index % 2)
	alloc := (u.Index/2)%2 == 1
	if kind == vfRS && u.Index%8 == 5 {
		c14ManyForeignHandles(u, alloc)
	}
	roHandles := 0 // read-only handles with a failing read so far in this unit (selects the failure value)
	for bi := 0; bi < 6; bi++ {
		nh := []int{1, 2, 3, 8, 1, 4}[(bi+u.Index)%6]
		k := []int{1, 3, 8, 20, 64, 33}[(bi+u.Index/4)%6]
		label := fmt.Sprintf("%v/alloc=%v/handles=%d/k=%d", kind, alloc, nh, k)
		u.Eval(label)
		u.Count("bursts", 1)

		var store *vfStore
		dir := ""
		cfg := vfSrvCfg{Kind: kind, Alloc: alloc}
		rr := r.Fork()
		var dmu sync.Mutex
		if kind == vfRS {
			store = vfNewStore()
			// the objects honour the context of the request that opened them: it stays live until the handle is closed
			store.CtxBoundObjects = true
			store.TransferErrorPoisons = true // ... and take a transfer-error notification to heart
			// an attribute change through a handle takes a while: reads and writes on that handle go on beside it
			store.CmdDelay = func(method string) {
				if method == "Setstat" {
					for spin := 0; spin < 400; spin++ {
						runtime.Gosched()
					}
				}
			}
			cfg.H = store.Handlers(vfHandlerOpt{OpenFile: bi%2 == 0})
			// "for all relative speeds": in a few bursts one handler call takes seconds, not microseconds
			// (a wait with a built-in patience of a second or three would give up on it)
			verySlow := u.Index%8 == 3 && bi == 1
			if verySlow {
				u.Count("bursts_with_a_call_of_several_seconds", 1)
			}
			store.Delay = func(write bool, off int64) {
				dmu.Lock()
				d := rr.Intn(2000)
				slow := verySlow && write && off == 0
				if slow {
					verySlow = false
				}
				dmu.Unlock()
				if slow {
					d := 4200 * time.Millisecond
					if u.Index%24 == 3 {
						d = 33 * time.Second // one unit: longer than a patience of ten seconds, or of half a minute
					}
					time.Sleep(d)
				}
				if d > 300 {
					time.Sleep(time.Duration(d) * time.Microsecond)
				}
			}
		} else {
			dir = filepath.Join(u.TempDir(), fmt.Sprintf("b%d", bi))
			os.MkdirAll(dir, 0o755)
		}
		// which order ids are CLOSE packets is known once the burst is built
		closeOID := map[uint32]bool{}
		var hmu sync.Mutex
		incoming, ready := 0, 0
		waited := 0
		maxInflightAtClose := 0
		hooks := vfInstallHooks(vfHookCfg{Seed: r.Uint64(), MaxSleepUs: 800, NoLog: true,
			DelayPct: map[int]int{vhSrvWorker: 40, vhRsWorker: 40, vhPmReady: 10},
			On: func(ev vfHookEv) {
				hmu.Lock()
				defer hmu.Unlock()
				switch ev.Point {
				case vhPmIncoming:
					incoming++
				case vhPmReady:
					ready++
				case vhPmDispatch:
					if closeOID[ev.OID] {
						if n := incoming - ready; n > 0 {
							waited++
							if n > maxInflightAtClose {
								maxInflightAtClose = n
							}
						}
					}
				}
			}})
		rs, err := vfRawConnect(cfg, vfPipeOpts{}, true)
		if err != nil {
			hooks.Uninstall()
			u.Inconclusive("connect: %v", err)
			return
		}
		// phase 1: open the handles
		readOnly := kind == vfRS && (bi == 3 || bi == 5)
		if readOnly {
			label += "/read-only-handles"
			u.Count("bursts_on_read_only_handles", 1)
		}
		var opens []vfPkt
		id := uint32(100)
		paths := make([]string, nh)
		for h := 0; h < nh; h++ {
			id++
			p := fmt.Sprintf("/f%d", h)
			if kind == vfOS {
				p = filepath.Join(dir, fmt.Sprintf("f%d", h))
			}
			paths[h] = p
			if readOnly {
				// read-only handles on existing files (the request server's reader objects)
				store.Put(p, vfPattern(uint64(h*1000), 0, k*48))
				opens = append(opens, vfPkt{Type: rfOpen, ID: id, Path: p, Pflags: rfRead_})
				continue
			}
			opens = append(opens, vfPkt{Type: rfOpen, ID: id, Path: p, Pflags: rfRead_ | rfWrite_ | rfCreat_})
		}
		hresp, err := rs.R.Phase(120*time.Second, opens...)
		if err != nil {
			hooks.Uninstall()
			u.Violation("open-phase:"+kind.String(), label+": "+err.Error(), nil)
			return
		}
		handles := make([]string, nh)
		okOpen := true
		for h, p := range hresp {
			if p.Type != rfHandle {
				okOpen = false
				u.Violation("open-failed:"+kind.String(), fmt.Sprintf("%s: OPEN answered %s", label, p), nil)
			}
			handles[h] = p.Handle
		}
		if !okOpen {
			hooks.Uninstall()
			rs.End(60 * time.Second)
			continue
		}
		// phase 2: the burst. Order ids: INIT=1, opens 2..nh+1, burst from nh+2.
		type slot struct {
			h    int
			pkt  vfPkt
			kind string
		}
		perHandle := make([][]vfPkt, nh)
		const chunk = 48
		pathCmds := 0
		// request server, every fourth burst: one write per handle fails in the handler (disk full, quota).
		// That write is answered with an error; everything else about the burst stays as stated: the
		// other requests succeed and Close runs after all of them, exactly once.
		failW := map[int]int{}
		failID := map[uint32]bool{}
		if kind == vfRS && bi%4 == 1 && k > 1 && !readOnly {
			failOff := map[string]int64{}
			for h := 0; h < nh; h++ {
				failW[h] = r.Intn(k)
				failOff[paths[h]] = int64(failW[h] * chunk)
			}
			store.FailAt = func(path string, off int64, n int, write bool) error {
				if o, ok := failOff[path]; ok && write && off == o {
					return fmt.Errorf("no space left for %s@%d", path, off)
				}
				return nil
			}
			label += "/one-failing-write-per-handle"
			u.Count("bursts_with_failing_writes", 1)
		}
		if readOnly && k > 1 {
			// one read per handle fails in the handler object, with a value from the pool of failure values (I/O error,
			// stale handle, interrupted, end-of-file inside another error, ...): that read is answered with an error, the
			// other reads are served and the object is closed after all of them, once, by the CLOSE
			failOff := map[string]int64{}
			failErr := map[string]error{}
			for h := 0; h < nh; h++ {
				failW[h] = r.Intn(k)
				failOff[paths[h]] = int64(failW[h] * chunk)
				failErr[paths[h]] = vfFaultErr((u.Index/2)*4 + roHandles)
				roHandles++
			}
			store.FailAt = func(path string, off int64, n int, write bool) error {
				if o, ok := failOff[path]; ok && !write && off == o {
					return failErr[path]
				}
				return nil
			}
			label += fmt.Sprintf("/one-failing-read-per-handle(%v...)", failErr[paths[0]])
		}
		for h := 0; h < nh; h++ {
			for w := 0; w < k; w++ {
				id++
				if fw, ok := failW[h]; ok && fw == w {
					failID[id] = true
				}
				if readOnly {
					perHandle[h] = append(perHandle[h], vfPkt{Type: rfRead, ID: id, Handle: handles[h], Off: uint64(w * chunk), Len: chunk})
					continue
				}
				perHandle[h] = append(perHandle[h], vfPkt{Type: rfWrite, ID: id, Handle: handles[h], Off: uint64(w * chunk), Data: vfPattern(uint64(h*1000+w+1), int64(w*chunk), chunk)})
				// (without OpenFileWriter the request server turns a READ|WRITE open into a write-only handle)
				if w%4 == 3 && (kind == vfOS || bi%2 == 0) {
					id++
					perHandle[h] = append(perHandle[h], vfPkt{Type: rfRead, ID: id, Handle: handles[h], Off: 0, Len: 16})
				}
				if w%7 == 4 {
					// an attribute change through the handle in the middle of the pipeline (chmod: the content stays)
					id++
					perHandle[h] = append(perHandle[h], vfPkt{Type: rfFsetstat, ID: id, Handle: handles[h], Attrs: vfAttrs{Flags: rfAttrPerm, Perm: 0o640}})
				}
				if w%5 == 2 {
					// a size query on the handle in the middle of the pipeline (served by another worker than the reads and writes)
					id++
					perHandle[h] = append(perHandle[h], vfPkt{Type: rfFstat, ID: id, Handle: handles[h]})
				}
			}
			if (h+bi+u.Index/2)%2 == 0 {
				// a request that names a path, not the handle, between the last read/write and the CLOSE (served by the
				// servers' sequential command path): the CLOSE behind it still waits for every read and write before it
				id++
				switch (h + bi) % 3 {
				case 0:
					perHandle[h] = append(perHandle[h], vfPkt{Type: rfRealpath, ID: id, Path: "."})
				case 1:
					perHandle[h] = append(perHandle[h], vfPkt{Type: rfLstat, ID: id, Path: paths[h]})
				default:
					perHandle[h] = append(perHandle[h], vfPkt{Type: rfStat, ID: id, Path: "/"})
				}
				pathCmds++
			}
			id++
			perHandle[h] = append(perHandle[h], vfPkt{Type: rfClose, ID: id, Handle: handles[h]})
		}
		u.Count("path_requests_between_rw_and_close", int64(pathCmds))
		// interleave handles randomly, keeping each handle's own order
		var burst []vfPkt
		idx := make([]int, nh)
		for {
			var live []int
			for h := 0; h < nh; h++ {
				if idx[h] < len(perHandle[h]) {
					live = append(live, h)
				}
			}
			if len(live) == 0 {
				break
			}
			h := live[r.Intn(len(live))]
			burst = append(burst, perHandle[h][idx[h]])
			idx[h]++
		}
		hmu.Lock()
		for i, p := range burst {
			if p.Type == rfClose {
				closeOID[uint32(nh+2+i)] = true
			}
		}
		hmu.Unlock()
		var stream []byte
		rw := 0
		for _, p := range burst {
			stream = append(stream, p.Frame()...)
			if p.Type != rfClose {
				rw++
			}
		}
		u.Count("rw_requests", int64(rw))
		base := rs.R.Count()
		eofAfterBurst := bi%3 == 2
		if eofAfterBurst {
			// the peer ends its sending direction right behind the burst: everything it sent must still be
			// carried out in order before anything is closed (replies may be cut short at shutdown)
			label += "/eof-after-burst"
			u.Count("bursts_followed_by_eof", 1)
			rs.R.Send(stream)
			if msg := rs.End(120 * time.Second); msg != "" {
				u.Violation("serve-end:"+kind.String(), label+": "+msg, nil)
			}
		}
		// request server, one burst per unit: the application calls the server's exported Close while the burst is being
		// served. Whatever that cuts off, no handler object is closed while a read or write on it is running, none is
		// used after its Close, and each is closed once.
		srvClose := kind == vfRS && bi == 4 && !eofAfterBurst
		if srvClose {
			label += "/server-Close-during-burst"
			u.Count("bursts_with_server_close", 1)
			bsent := vfGo(func() { rs.R.Send(stream) })
			for spin := 0; spin < 200000; spin++ {
				busy := false
				for _, o := range store.Objs() {
					if o.inflight.Load() > 0 {
						busy = true
					}
				}
				if busy {
					break
				}
				runtime.Gosched()
			}
			rs.S.rs.Close()
			rs.cEnd.ForceClose()
			vfAwait(bsent, 60*time.Second)
			if msg := rs.End(120 * time.Second); msg != "" {
				u.Violation("serve-end:"+kind.String(), label+": "+msg, nil)
			}
		}
		sent := vfGo(func() {
			if !eofAfterBurst && !srvClose {
				rs.R.Send(stream)
			}
		})
		w, dump := vfDone, ""
		if !eofAfterBurst && !srvClose {
			w, dump = rs.R.WaitCount(base+len(burst), 120*time.Second)
		}
		<-sent
		witness := map[string]any{"config": label, "burst_len": len(burst), "unit": u.Index, "burst_index": bi}
		if w != vfDone {
			if w == vfStuck {
				u.Violation("burst-stuck:"+kind.String(), fmt.Sprintf("%s: responses missing and process quiescent\n%s", label, vfTrim(dump, 2500)), witness)
			} else {
				u.Inconclusive("%s: wall-clock cap", label)
			}
			hooks.Uninstall()
			rs.End(60 * time.Second)
			continue
		}
		resp := rs.R.All()[min(base, rs.R.Count()):]
		if !eofAfterBurst && !srvClose && len(resp) < len(burst) {
			u.Violation("burst-responses-missing:"+kind.String(), fmt.Sprintf("%s: the server ended the session after %d of %d responses although every request of the burst was well-formed", label, len(resp), len(burst)), witness)
		}
		for i, body := range resp {
			if i >= len(burst) {
				break
			}
			p, perr := vfParse(body, true)
			req := burst[i]
			if perr != nil || p.ID != req.ID {
				u.Violation("burst-reply-mismatch:"+kind.String(), fmt.Sprintf("%s: reply %d to %s is %v (%v)", label, i, req, p, perr), witness)
				break
			}
			ok := false
			switch req.Type {
			case rfWrite, rfClose, rfFsetstat:
				ok = p.Type == rfStatus && p.Code == rfOK
				if failID[req.ID] {
					ok = p.Type == rfStatus && p.Code != rfOK
				}
			case rfRead:
				ok = p.Type == rfData || (p.Type == rfStatus && p.Code == rfEOF)
				if readOnly {
					ok = p.Type == rfData && len(p.Data) == chunk
					if failID[req.ID] {
						ok = p.Type == rfStatus && p.Code != rfOK
					}
				}
			case rfFstat:
				ok = p.Type == rfAttrs
			case rfRealpath:
				ok = p.Type == rfName
			case rfStat, rfLstat:
				ok = p.Type == rfAttrs || p.Type == rfStatus // (whatever the backend says about that path)
			}
			if !ok {
				u.Violation("pre-close-request-failed:"+kind.String()+":"+rfTypeName(req.Type), fmt.Sprintf("%s: %s, sent before the CLOSE of its handle, was answered %s", label, req, p), witness)
			}
		}
		hooks.Uninstall()
		if !eofAfterBurst && !srvClose {
			if msg := rs.End(120 * time.Second); msg != "" {
				u.Violation("serve-end:"+kind.String(), label+": "+msg, witness)
			}
		}
		// final content: every write present
		for h := 0; h < nh && !readOnly && !srvClose; h++ {
			var got []byte
			if kind == vfOS {
				got, _ = os.ReadFile(paths[h])
			} else {
				got, _ = store.Get(paths[h])
			}
			var want []byte
			for w := 0; w < k; w++ {
				if fw, ok := failW[h]; ok && fw == w {
					if w < k-1 {
						want = append(want, make([]byte, chunk)...) // the hole left by the failed write
					}
					continue
				}
				want = append(want, vfPattern(uint64(h*1000+w+1), int64(w*chunk), chunk)...)
			}
			if !bytes.Equal(got, want) {
				u.Violation("content-missing-writes:"+kind.String(), fmt.Sprintf("%s: file of handle %d has %d bytes, first difference at %d of %d expected: a write sent before CLOSE did not take effect", label, h, len(got), vfFirstDiff(got, want), len(want)), witness)
			}
		}
		if kind == vfRS {
			for _, o := range store.Objs() {
				if o.kind == "stat" {
					continue
				}
				if n := o.inflightAtClose.Load(); n > 0 {
					u.Violation("close-concurrent-with-rw", fmt.Sprintf("%s: Close of the handler object for %s ran while %d ReadAt/WriteAt calls were in flight", label, o.path, n), witness)
				}
				if n := o.afterClose.Load(); n > 0 {
					u.Violation("rw-after-close", fmt.Sprintf("%s: %d ReadAt/WriteAt calls on the handler object for %s started after its Close", label, n, o.path), witness)
				}
				if n := o.closes.Load(); n != 1 {
					u.Violation("close-count", fmt.Sprintf("%s: handler object for %s closed %d times", label, o.path, n), witness)
				}
				u.Max("handler_max_inflight", int64(o.maxInflight.Load()))
			}
		}
		hmu.Lock()
		u.Count("closes_that_had_to_wait", int64(waited))
		u.Max("rw_inflight_when_close_dispatched", int64(maxInflightAtClose))
		hmu.Unlock()
		if bi == 0 {
			u.Sample(map[string]any{"config": label, "burst": fmt.Sprintf("%d packets: %d rw + %d CLOSE in one write", len(burst), rw, nh), "closes_that_had_to_wait": waited})
		}
	}
}
