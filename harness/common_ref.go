//go:build verif

package sftp

// vfref: an independent encoder/decoder for SFTP v3, written from
// draft-ietf-secsh-filexfer-02 and the OpenSSH PROTOCOL file (statvfs,
// posix-rename, hardlink, fsync). It shares no code with packet.go or the
// internal filexfer package and serves as the spec oracle and as the
// request/reply generator of the hostile peers.

import (
	"errors"
	"fmt"
)

const (
	rfInit, rfVersion, rfOpen, rfClose, rfRead, rfWrite, rfLstat, rfFstat    = 1, 2, 3, 4, 5, 6, 7, 8
	rfSetstat, rfFsetstat, rfOpendir, rfReaddir, rfRemove, rfMkdir, rfRmdir  = 9, 10, 11, 12, 13, 14, 15
	rfRealpath, rfStat, rfRename, rfReadlink, rfSymlink                      = 16, 17, 18, 19, 20
	rfStatus, rfHandle, rfData, rfName, rfAttrs, rfExtended, rfExtendedReply = 101, 102, 103, 104, 105, 200, 201

	rfOK, rfEOF, rfNoSuchFile, rfPermDenied, rfFailure, rfBadMessage, rfNoConn, rfConnLost, rfUnsupported = 0, 1, 2, 3, 4, 5, 6, 7, 8

	rfAttrSize, rfAttrUIDGID, rfAttrPerm, rfAttrTime, rfAttrExt = 0x1, 0x2, 0x4, 0x8, 0x80000000

	rfRead_, rfWrite_, rfAppend_, rfCreat_, rfTrunc_, rfExcl_ = 0x1, 0x2, 0x4, 0x8, 0x10, 0x20
)

var rfTypeNames = map[byte]string{1: "INIT", 2: "VERSION", 3: "OPEN", 4: "CLOSE", 5: "READ", 6: "WRITE", 7: "LSTAT", 8: "FSTAT",
	9: "SETSTAT", 10: "FSETSTAT", 11: "OPENDIR", 12: "READDIR", 13: "REMOVE", 14: "MKDIR", 15: "RMDIR", 16: "REALPATH",
	17: "STAT", 18: "RENAME", 19: "READLINK", 20: "SYMLINK", 101: "STATUS", 102: "HANDLE", 103: "DATA", 104: "NAME",
	105: "ATTRS", 200: "EXTENDED", 201: "EXTENDED_REPLY"}

func rfTypeName(t byte) string {
	if n, ok := rfTypeNames[t]; ok {
		return n
	}
	return fmt.Sprintf("T%d", t)
}

type vfAttrs struct {
	Flags        uint32
	Size         uint64
	UID, GID     uint32
	Perm         uint32
	Atime, Mtime uint32
	Ext          [][2]string
}

type vfName struct {
	Name, Long string
	Attrs      vfAttrs
}

type vfStatVFS struct {
	Bsize, Frsize, Blocks, Bfree, Bavail, Files, Ffree, Favail, Fsid, Flag, Namemax uint64
}

// vfPkt is a logical SFTP packet (request or response).
type vfPkt struct {
	Type    byte
	ID      uint32
	Path    string // path / filename / oldpath / (SYMLINK: first wire string)
	Path2   string // newpath / (SYMLINK: second wire string)
	Handle  string
	Ext     string // extended request name
	ExtData []byte // raw extended request/reply data (unknown extensions, replies)
	Pflags  uint32
	Attrs   vfAttrs
	Off     uint64
	Len     uint32
	Data    []byte
	Code    uint32
	Msg     string
	Lang    string
	Names   []vfName
	Version uint32
	Exts    [][2]string
	VFS     *vfStatVFS
}

type rfW struct{ b []byte }

func (w *rfW) u8(v byte)    { w.b = append(w.b, v) }
func (w *rfW) u32(v uint32) { w.b = append(w.b, byte(v>>24), byte(v>>16), byte(v>>8), byte(v)) }
func (w *rfW) u64(v uint64) { w.u32(uint32(v >> 32)); w.u32(uint32(v)) }
func (w *rfW) str(s string) { w.u32(uint32(len(s))); w.b = append(w.b, s...) }
func (w *rfW) bytes(s []byte) {
	w.u32(uint32(len(s)))
	w.b = append(w.b, s...)
}
func (w *rfW) attrs(a vfAttrs) {
	w.u32(a.Flags)
	if a.Flags&rfAttrSize != 0 {
		w.u64(a.Size)
	}
	if a.Flags&rfAttrUIDGID != 0 {
		w.u32(a.UID)
		w.u32(a.GID)
	}
	if a.Flags&rfAttrPerm != 0 {
		w.u32(a.Perm)
	}
	if a.Flags&rfAttrTime != 0 {
		w.u32(a.Atime)
		w.u32(a.Mtime)
	}
	if a.Flags&rfAttrExt != 0 {
		w.u32(uint32(len(a.Ext)))
		for _, e := range a.Ext {
			w.str(e[0])
			w.str(e[1])
		}
	}
}

// Body encodes type byte + payload (without the length prefix).
func (p vfPkt) Body() []byte {
	w := &rfW{}
	w.u8(p.Type)
	switch p.Type {
	case rfInit, rfVersion:
		w.u32(p.Version)
		for _, e := range p.Exts {
			w.str(e[0])
			w.str(e[1])
		}
		return w.b
	}
	w.u32(p.ID)
	switch p.Type {
	case rfOpen:
		w.str(p.Path)
		w.u32(p.Pflags)
		w.attrs(p.Attrs)
	case rfClose, rfFstat, rfReaddir:
		w.str(p.Handle)
	case rfRead:
		w.str(p.Handle)
		w.u64(p.Off)
		w.u32(p.Len)
	case rfWrite:
		w.str(p.Handle)
		w.u64(p.Off)
		w.bytes(p.Data)
	case rfLstat, rfStat, rfOpendir, rfRemove, rfRmdir, rfRealpath, rfReadlink:
		w.str(p.Path)
	case rfSetstat, rfMkdir:
		w.str(p.Path)
		w.attrs(p.Attrs)
	case rfFsetstat:
		w.str(p.Handle)
		w.attrs(p.Attrs)
	case rfRename, rfSymlink:
		w.str(p.Path)
		w.str(p.Path2)
	case rfExtended:
		w.str(p.Ext)
		switch p.Ext {
		case "statvfs@openssh.com":
			w.str(p.Path)
		case "posix-rename@openssh.com", "hardlink@openssh.com":
			w.str(p.Path)
			w.str(p.Path2)
		case "fsync@openssh.com":
			w.str(p.Handle)
		default:
			w.b = append(w.b, p.ExtData...)
		}
	case rfStatus:
		w.u32(p.Code)
		w.str(p.Msg)
		w.str(p.Lang)
	case rfHandle:
		w.str(p.Handle)
	case rfData:
		w.bytes(p.Data)
	case rfName:
		w.u32(uint32(len(p.Names)))
		for _, n := range p.Names {
			w.str(n.Name)
			w.str(n.Long)
			w.attrs(n.Attrs)
		}
	case rfAttrs:
		w.attrs(p.Attrs)
	case rfExtendedReply:
		if p.VFS != nil {
			v := p.VFS
			for _, x := range []uint64{v.Bsize, v.Frsize, v.Blocks, v.Bfree, v.Bavail, v.Files, v.Ffree, v.Favail, v.Fsid, v.Flag, v.Namemax} {
				w.u64(x)
			}
		} else {
			w.b = append(w.b, p.ExtData...)
		}
	default:
		w.b = append(w.b, p.ExtData...)
	}
	return w.b
}

// Frame encodes the packet with its uint32 length prefix.
func (p vfPkt) Frame() []byte { return vfFrame(p.Body()) }

func vfFrame(body []byte) []byte {
	out := make([]byte, 4, 4+len(body))
	l := uint32(len(body))
	out[0], out[1], out[2], out[3] = byte(l>>24), byte(l>>16), byte(l>>8), byte(l)
	return append(out, body...)
}

var errRfShort = errors.New("vfref: short packet")

type rfR struct {
	b   []byte
	err error
}

func (r *rfR) u8() byte {
	if r.err != nil || len(r.b) < 1 {
		r.err = errRfShort
		return 0
	}
	v := r.b[0]
	r.b = r.b[1:]
	return v
}
func (r *rfR) u32() uint32 {
	if r.err != nil || len(r.b) < 4 {
		r.err = errRfShort
		return 0
	}
	v := uint32(r.b[0])<<24 | uint32(r.b[1])<<16 | uint32(r.b[2])<<8 | uint32(r.b[3])
	r.b = r.b[4:]
	return v
}
func (r *rfR) u64() uint64 {
	h := r.u32()
	l := r.u32()
	return uint64(h)<<32 | uint64(l)
}
func (r *rfR) raw() []byte {
	n := r.u32()
	if r.err != nil || uint64(n) > uint64(len(r.b)) {
		r.err = errRfShort
		return nil
	}
	v := r.b[:n]
	r.b = r.b[n:]
	return v
}
func (r *rfR) str() string { return string(r.raw()) }
func (r *rfR) attrs() vfAttrs {
	var a vfAttrs
	a.Flags = r.u32()
	if a.Flags&rfAttrSize != 0 {
		a.Size = r.u64()
	}
	if a.Flags&rfAttrUIDGID != 0 {
		a.UID = r.u32()
		a.GID = r.u32()
	}
	if a.Flags&rfAttrPerm != 0 {
		a.Perm = r.u32()
	}
	if a.Flags&rfAttrTime != 0 {
		a.Atime = r.u32()
		a.Mtime = r.u32()
	}
	if a.Flags&rfAttrExt != 0 {
		n := r.u32()
		for i := uint32(0); i < n && r.err == nil; i++ {
			k := r.str()
			v := r.str()
			if r.err == nil {
				a.Ext = append(a.Ext, [2]string{k, v})
			}
		}
	}
	return a
}

// vfParse decodes a frame body (type byte + payload). strict: trailing bytes are an error.
func vfParse(body []byte, strict bool) (vfPkt, error) {
	r := &rfR{b: body}
	var p vfPkt
	p.Type = r.u8()
	if r.err != nil {
		return p, r.err
	}
	switch p.Type {
	case rfInit, rfVersion:
		p.Version = r.u32()
		for r.err == nil && len(r.b) > 0 {
			k := r.str()
			v := r.str()
			if r.err == nil {
				p.Exts = append(p.Exts, [2]string{k, v})
			}
		}
		return p, r.err
	}
	p.ID = r.u32()
	switch p.Type {
	case rfOpen:
		p.Path = r.str()
		p.Pflags = r.u32()
		p.Attrs = r.attrs()
	case rfClose, rfFstat, rfReaddir:
		p.Handle = r.str()
	case rfRead:
		p.Handle = r.str()
		p.Off = r.u64()
		p.Len = r.u32()
	case rfWrite:
		p.Handle = r.str()
		p.Off = r.u64()
		p.Data = append([]byte(nil), r.raw()...)
	case rfLstat, rfStat, rfOpendir, rfRemove, rfRmdir, rfRealpath, rfReadlink:
		p.Path = r.str()
	case rfSetstat, rfMkdir:
		p.Path = r.str()
		p.Attrs = r.attrs()
	case rfFsetstat:
		p.Handle = r.str()
		p.Attrs = r.attrs()
	case rfRename, rfSymlink:
		p.Path = r.str()
		p.Path2 = r.str()
	case rfExtended:
		p.Ext = r.str()
		switch p.Ext {
		case "statvfs@openssh.com":
			p.Path = r.str()
		case "posix-rename@openssh.com", "hardlink@openssh.com":
			p.Path = r.str()
			p.Path2 = r.str()
		case "fsync@openssh.com":
			p.Handle = r.str()
		default:
			p.ExtData = append([]byte(nil), r.b...)
			r.b = nil
		}
	case rfStatus:
		p.Code = r.u32()
		p.Msg = r.str()
		p.Lang = r.str()
	case rfHandle:
		p.Handle = r.str()
	case rfData:
		p.Data = append([]byte(nil), r.raw()...)
	case rfName:
		n := r.u32()
		for i := uint32(0); i < n && r.err == nil; i++ {
			var e vfName
			e.Name = r.str()
			e.Long = r.str()
			e.Attrs = r.attrs()
			if r.err == nil {
				p.Names = append(p.Names, e)
			}
		}
	case rfAttrs:
		p.Attrs = r.attrs()
	case rfExtendedReply:
		p.ExtData = append([]byte(nil), r.b...)
		if len(r.b) == 88 {
			v := &vfStatVFS{}
			for _, x := range []*uint64{&v.Bsize, &v.Frsize, &v.Blocks, &v.Bfree, &v.Bavail, &v.Files, &v.Ffree, &v.Favail, &v.Fsid, &v.Flag, &v.Namemax} {
				*x = r.u64()
			}
			p.VFS = v
		}
		r.b = nil
	default:
		return p, fmt.Errorf("vfref: unknown packet type %d", p.Type)
	}
	if r.err != nil {
		return p, r.err
	}
	if strict && len(r.b) != 0 {
		return p, fmt.Errorf("vfref: %d trailing bytes in %s", len(r.b), rfTypeName(p.Type))
	}
	return p, nil
}

// vfIsRequest reports whether t is a client->server request type.
func vfIsRequest(t byte) bool { return (t >= 3 && t <= 20) || t == rfExtended || t == rfInit }

// vfLegalReply: the reply types the draft allows for a request type.
func vfLegalReply(req, resp byte) bool {
	switch req {
	case rfInit:
		return resp == rfVersion
	case rfOpen, rfOpendir:
		return resp == rfHandle || resp == rfStatus
	case rfRead:
		return resp == rfData || resp == rfStatus
	case rfReaddir, rfReadlink, rfRealpath:
		return resp == rfName || resp == rfStatus
	case rfLstat, rfFstat, rfStat:
		return resp == rfAttrs || resp == rfStatus
	case rfExtended:
		return resp == rfStatus || resp == rfExtendedReply
	default:
		return resp == rfStatus
	}
}

func (p vfPkt) String() string {
	s := fmt.Sprintf("%s id=%d", rfTypeName(p.Type), p.ID)
	if p.Path != "" {
		s += fmt.Sprintf(" path=%q", vfTrim(p.Path, 40))
	}
	if p.Path2 != "" {
		s += fmt.Sprintf(" path2=%q", vfTrim(p.Path2, 40))
	}
	if p.Handle != "" {
		s += fmt.Sprintf(" h=%q", vfTrim(p.Handle, 20))
	}
	if p.Ext != "" {
		s += " ext=" + vfTrim(p.Ext, 30)
	}
	switch p.Type {
	case rfOpen:
		s += fmt.Sprintf(" pflags=%#x aflags=%#x", p.Pflags, p.Attrs.Flags)
	case rfRead:
		s += fmt.Sprintf(" off=%d len=%d", p.Off, p.Len)
	case rfWrite, rfData:
		s += fmt.Sprintf(" off=%d n=%d", p.Off, len(p.Data))
	case rfStatus:
		s += fmt.Sprintf(" code=%d msg=%q", p.Code, vfTrim(p.Msg, 60))
	case rfName:
		s += fmt.Sprintf(" names=%d", len(p.Names))
	case rfSetstat, rfFsetstat, rfAttrs:
		s += fmt.Sprintf(" aflags=%#x", p.Attrs.Flags)
	}
	return s
}
