//go:build verif

package sftp

// C12 — A remote File keeps os.File's offset and closed-state semantics.

import (
	"bytes"
	"errors"
	"fmt"
	"io"
	"os"
	"path/filepath"
	"runtime"
	"strings"
	"sync"
	"sync/atomic"
	"testing"
	"time"
)

func TestVerifC12(t *testing.T) {
	vfMain(t, vfCheck{
		ID: "C12", Level: "exploration",
		Rule:        "even units: seeded sequences (25-60 calls) of Read/Write/ReadAt/WriteAt/Seek (all whence values incl. invalid, negative results)/ReadFrom/WriteTo/Truncate/Stat with lengths around P and P*C, stepped against a sequential (offset, content) model under every combination of UseConcurrentReads x UseConcurrentWrites x UseFstat, both servers; after EVERY call Seek(0,SeekCurrent) must equal the model offset. One os-served file per unit is renamed away under the open File (a decoy takes the name): the File follows the open file. Then Close (on the request server also answered with PERMISSION_DENIED / NO_SUCH_FILE / EOF / FAILURE, and once per unit on an already lost connection) and every method must return os.ErrClosed. Odd units: Close racing 2-8 goroutines looping over ReadAt/WriteAt/Stat/Truncate/Chmod through a reorder proxy with delays; a tap on the client->server stream checks exactly one CLOSE per handle and no packet carrying the handle after it. A class is (call kind, option set, length class) resp. (race shape).",
		Assumptions: []string{"(n>0, io.EOF) and (n>0, nil) are the same outcome for Read (io.Reader allows both)", "race detector on"},
		Units: func(tier vfTier, seed uint64) int {
			if tier == vfThorough {
				return 3200
			}
			return 32
		},
		Shards: func(tier vfTier) int {
			if tier == vfThorough {
				return 14
			}
			return 8
		},
		Floors: map[string]int64{"calls_stepped": 2000, "close_races": 300, "closed_method_checks": 150, "races_where_close_overlapped_calls": 30, "call_kinds": 9},
		Run:    c12Run,
	})
}

type c12Model struct {
	off  int64
	data []byte
}

func (m *c12Model) writeAt(b []byte, off int64) {
	if len(b) == 0 {
		return
	}
	if need := int(off) + len(b); need > len(m.data) {
		m.data = append(m.data, make([]byte, need-len(m.data))...)
	}
	copy(m.data[off:], b)
}

func c12Run(u *vfUnit) {
	if u.Index%2 == 0 {
		c12Sequences(u)
	} else {
		c12CloseRaces(u)
	}
}

func c12Sequences(u *vfUnit) {
	r := u.Rng
	i := u.Index / 2
	kind := vfKind(i % 2)
	cr, cw, fst := (i/2)%2 == 0, (i/4)%2 == 0, (i/8)%2 == 0
	P := []int{3, 7, 64, 1000}[(i/3)%4]
	C := []int{1, 2, 3, 64}[(i/5)%4]
	cfgLabel := fmt.Sprintf("%v/P=%d/C=%d/cr=%v/cw=%v/fstat=%v", kind, P, C, cr, cw, fst)
	var store *vfStore
	dir := ""
	sc := vfSrvCfg{Kind: kind, Alloc: i%3 == 0}
	if kind == vfRS {
		store = vfNewStore()
		sc.H = store.Handlers(vfHandlerOpt{OpenFile: true, CmdAll: true, ListAll: true})
	} else {
		dir = u.TempDir()
	}
	sess, px, err := vfConnectProxied(sc, 2+r.Intn(8), r.Fork(), MaxPacketUnchecked(P), MaxConcurrentRequestsPerFile(C), UseConcurrentReads(cr), UseConcurrentWrites(cw), UseFstat(fst))
	if err != nil {
		u.Inconclusive("connect: %v", err)
		return
	}
	_ = px
	for fi := 0; fi < 4; fi++ {
		p := fmt.Sprintf("/s%d", fi)
		if kind == vfOS {
			p = filepath.Join(dir, fmt.Sprintf("s%d", fi))
		}
		initLen := []int{0, P*C + 5, 3*P + 1, 2 * P}[fi]
		m := &c12Model{data: vfPattern(uint64(fi+1), 0, initLen)}
		if kind == vfOS {
			os.WriteFile(p, m.data, 0o644)
		} else {
			store.Put(p, m.data)
		}
		f, err := sess.C.OpenFile(p, os.O_RDWR)
		if err != nil {
			u.Violation("open-failed", cfgLabel+": "+err.Error(), nil)
			return
		}
		if kind == vfOS && fi == 2 {
			// like an os.File, the File follows the open file, not its name: the file is moved away
			// behind the server's back and a decoy of another size takes over the name
			os.Rename(p, p+".moved")
			os.WriteFile(p, []byte("decoy"), 0o644)
			p += ".moved"
			u.Count("files_renamed_while_open", 1)
		}
		// on the request server three of the four files fail their CLOSE with a status of their own
		var closeErr error
		if kind == vfRS && fi > 0 {
			closeErr = []error{nil, os.ErrPermission, os.ErrNotExist, io.EOF, errors.New("close failed 77")}[1+(fi-1+i)%4]
			ce, cp := closeErr, p
			store.CloseErr = func(path string) error {
				if path == cp {
					return ce
				}
				return nil
			}
		}
		lens := []int{0, 1, P - 1, P, P + 1, 2*P + 1, P * C, P*C + 1, 2*P*C + 3}
		var history []string
		nCalls := 25 + r.Intn(36)
		for ci := 0; ci < nCalls; ci++ {
			L := lens[r.Intn(len(lens))]
			if L > 20000 {
				L = 20000
			}
			if L < 0 {
				L = 0
			}
			size := int64(len(m.data))
			call := ""
			problem := ""
			kindName := ""
			switch op := r.Intn(12); op {
			case 0, 1: // Read
				kindName = "Read"
				buf := bytes.Repeat([]byte{0xEE}, L)
				n, err := f.Read(buf)
				call = fmt.Sprintf("Read(%d)@%d", L, m.off)
				want := 0
				if m.off < size {
					want = min(L, int(size-m.off))
				}
				switch {
				case n != want:
					problem = fmt.Sprintf("returned n=%d, want %d", n, want)
				case want > 0 && err != nil && err != io.EOF:
					problem = fmt.Sprintf("error %v", err)
				case want > 0 && err == io.EOF && want == L:
					problem = "io.EOF although the buffer was filled"
				case want == 0 && L > 0 && err != io.EOF:
					problem = fmt.Sprintf("at EOF returned (0, %v), want (0, io.EOF)", err)
				case want == 0 && L == 0 && err != nil:
					problem = fmt.Sprintf("empty read returned %v", err)
				case want > 0 && !bytes.Equal(buf[:n], m.data[m.off:m.off+int64(n)]):
					problem = "bytes differ from the file content at the model offset"
				}
				if n > 0 {
					m.off += int64(n)
				}
			case 2, 3: // Write
				kindName = "Write"
				b := vfPattern(uint64(1000+ci), m.off, L)
				n, err := f.Write(b)
				call = fmt.Sprintf("Write(%d)@%d", L, m.off)
				if n != L || err != nil {
					problem = fmt.Sprintf("returned (%d, %v)", n, err)
				}
				m.writeAt(b, m.off)
				m.off += int64(L)
			case 4: // ReadAt
				kindName = "ReadAt"
				off := int64(r.Intn(int(size) + P + 2))
				buf := make([]byte, L)
				n, err := f.ReadAt(buf, off)
				call = fmt.Sprintf("ReadAt(%d, %d)", L, off)
				want := 0
				if off < size {
					want = min(L, int(size-off))
				}
				if n != want || (want == L) != (err == nil) || (want < L && err != io.EOF) {
					problem = fmt.Sprintf("returned (%d, %v), want n=%d", n, err, want)
				} else if !bytes.Equal(buf[:n], m.data[min(off, size):min(off, size)+int64(n)]) {
					problem = "bytes differ"
				}
			case 5: // WriteAt
				kindName = "WriteAt"
				off := int64(r.Intn(int(size) + P + 2))
				b := vfPattern(uint64(2000+ci), off, L)
				n, err := f.WriteAt(b, off)
				call = fmt.Sprintf("WriteAt(%d, %d)", L, off)
				if n != L || err != nil {
					problem = fmt.Sprintf("returned (%d, %v)", n, err)
				}
				m.writeAt(b, off)
			case 6, 7: // Seek
				kindName = "Seek"
				whence := []int{io.SeekStart, io.SeekCurrent, io.SeekEnd, 3, -1, 7}[r.Intn(6)]
				delta := int64(r.Intn(int(size)+2*P+3)) - int64(r.Intn(int(size)/2+P+2))
				if r.Intn(4) == 0 {
					delta = -delta - int64(size) - 5
				}
				got, err := f.Seek(delta, whence)
				call = fmt.Sprintf("Seek(%d, %d)@%d size=%d", delta, whence, m.off, size)
				var target int64
				valid := true
				switch whence {
				case io.SeekStart:
					target = delta
				case io.SeekCurrent:
					target = m.off + delta
				case io.SeekEnd:
					target = size + delta
				default:
					valid = false
				}
				if !valid || target < 0 {
					if err == nil {
						problem = fmt.Sprintf("succeeded with result %d; want an error and no movement", got)
					}
				} else {
					if err != nil || got != target {
						problem = fmt.Sprintf("returned (%d, %v), want (%d, nil)", got, err, target)
					}
					m.off = target
				}
			case 8: // ReadFrom
				kindName = "ReadFrom"
				b := vfPattern(uint64(3000+ci), m.off, L)
				var src io.Reader = bytes.NewReader(b)
				if ci%2 == 0 {
					src = c12Opaque{bytes.NewReader(b)}
				}
				if ci%5 == 3 && L > 0 {
					// a source that delivers its bytes and then fails with an error of its own (it announces far more than it
					// has, so the client may take its concurrent path): the count says how much was transferred, and the
					// offset has moved by that much
					src = &c12FailingSource{r: bytes.NewReader(b), announce: L*3 + 100000}
					n, err := f.ReadFrom(src)
					call = fmt.Sprintf("ReadFrom(source failing after %d bytes)@%d", L, m.off)
					if err == nil || !strings.Contains(err.Error(), "source gave out") || n < 0 || n > int64(L) {
						problem = fmt.Sprintf("returned (%d, %v)", n, err)
						n = min(max(n, 0), int64(L))
					}
					m.writeAt(b[:n], m.off)
					m.off += n
					break
				}
				n, err := f.ReadFrom(src)
				call = fmt.Sprintf("ReadFrom(%d bytes)@%d", L, m.off)
				if n != int64(L) || err != nil {
					problem = fmt.Sprintf("returned (%d, %v)", n, err)
				}
				m.writeAt(b, m.off)
				m.off += int64(L)
			case 9: // WriteTo
				kindName = "WriteTo"
				var w bytes.Buffer
				n, err := f.WriteTo(&w)
				call = fmt.Sprintf("WriteTo@%d size=%d", m.off, size)
				var want []byte
				if m.off < size {
					want = m.data[m.off:]
				}
				if n != int64(len(want)) || err != nil {
					problem = fmt.Sprintf("returned (%d, %v), want (%d, nil)", n, err, len(want))
				} else if !bytes.Equal(w.Bytes(), want) {
					problem = "bytes differ"
				}
				m.off += int64(len(want))
			case 10: // Truncate
				kindName = "Truncate"
				ns := int64(r.Intn(int(size) + P + 2))
				err := f.Truncate(ns)
				call = fmt.Sprintf("Truncate(%d) size=%d", ns, size)
				if err != nil {
					problem = err.Error()
				}
				if ns <= size {
					m.data = m.data[:ns]
				} else {
					m.data = append(m.data, make([]byte, ns-size)...)
				}
			case 11: // Stat
				kindName = "Stat"
				fi, err := f.Stat()
				call = "Stat"
				if err != nil || fi.Size() != size {
					problem = fmt.Sprintf("size %v err %v, want %d", fi, err, size)
				}
			}
			history = append(history, call)
			u.Count("calls_stepped", 1)
			u.SetAdd("call_kinds", kindName)
			u.Eval(fmt.Sprintf("%s/cr=%v/cw=%v/fstat=%v/%s", kindName, cr, cw, fst, c01Class12(L, P, C)))
			w := map[string]any{"config": cfgLabel, "history": history[max(0, len(history)-12):], "unit": u.Index}
			if problem != "" {
				u.Violation("call-result:"+kindName, fmt.Sprintf("%s: %s: %s", cfgLabel, call, problem), w)
			}
			cur, err := f.Seek(0, io.SeekCurrent)
			if err != nil || cur != m.off {
				u.Violation("offset-after:"+kindName, fmt.Sprintf("%s: after %s the File offset is %d (err %v), the sequential model says %d", cfgLabel, call, cur, err, m.off), w)
				f.Seek(m.off, io.SeekStart) // resynchronise so that one defect is reported once per sequence
			}
		}
		// content check
		var got []byte
		if kind == vfOS {
			got, _ = os.ReadFile(p)
		} else {
			got, _ = store.Get(p)
		}
		if !bytes.Equal(got, m.data) {
			u.Violation("content-after-sequence", fmt.Sprintf("%s: after the call sequence the served file (%d bytes) differs from the model (%d bytes) at %d", cfgLabel, len(got), len(m.data), vfFirstDiff(got, m.data)), map[string]any{"history": history})
		}
		// closed state
		c12Closed(u, sess, f, cfgLabel, closeErr != nil)
		if fi == 0 {
			u.Sample(map[string]any{"config": cfgLabel, "calls": history[:min(len(history), 10)]})
		}
	}
	if msg := sess.Close(); msg != "" {
		u.Violation("session-close", msg, nil)
	}
	c12CloseOnLostConnection(u, sc, cfgLabel, dir, store)
	c12CloseWriteReportedFailed(u, sc, cfgLabel, dir, store)
	c12SharedWriteTo(u, sc, cfgLabel, dir, store, P)
	if kind == vfRS {
		c12StreamLikeFiles(u, sc, cfgLabel, store, P, cr, fst)
	}
}

// c12StreamLikeFiles: WriteTo on objects that are not regular files (every non-regular type, and an object whose attributes
// carry no file type at all) and whose reads come back short without being at the end: the transfer must
// still deliver every byte and the offset must advance by exactly the bytes transferred.
func c12StreamLikeFiles(u *vfUnit, sc vfSrvCfg, cfgLabel string, store *vfStore, P int, cr, fst bool) {
	store.CloseErr = nil
	size := 40*P + 5
	for i, mode := range []os.FileMode{os.ModeNamedPipe | 0o644, os.ModeIrregular | 0o644, os.ModeCharDevice | os.ModeDevice | 0o600, os.ModeSocket | 0o644, os.ModeSymlink | 0o777, os.ModeDevice | 0o600} {
		p := fmt.Sprintf("/streamlike%d", i)
		content := vfPattern(uint64(50+i), 0, size)
		store.Put(p, content)
		store.SetMode(p, mode)
		store.ShortAt = func(path string, off int64, n int) int {
			if path == p {
				return max(1, P/2)
			}
			return 0
		}
		sess, err := vfConnect(sc, vfPipeOpts{}, MaxPacketUnchecked(P), UseConcurrentReads(cr), UseFstat(fst))
		if err != nil {
			u.Inconclusive("connect: %v", err)
			return
		}
		label := fmt.Sprintf("%s/stream-like(%v)", cfgLabel, mode)
		f, err := sess.C.Open(p)
		if err != nil {
			u.Violation("open-failed", label+": "+err.Error(), nil)
			sess.Close()
			continue
		}
		f.Seek(10, io.SeekStart)
		var buf bytes.Buffer
		var n int64
		var werr error
		if w, dump := vfAwait(vfGo(func() { n, werr = f.WriteTo(&buf) }), 120*time.Second); w != vfDone {
			if w == vfStuck {
				u.Violation("call-hangs:WriteTo", label+": WriteTo does not return\n"+vfTrim(dump, 2000), nil)
			} else {
				u.Inconclusive("%s: wall-clock cap", label)
			}
			return
		}
		off, _ := f.Seek(0, io.SeekCurrent)
		u.Count("calls_stepped", 1)
		u.Count("stream_like_transfers", 1)
		if werr != nil || n != int64(size-10) || !bytes.Equal(buf.Bytes(), content[10:]) || off != 10+n {
			u.Violation("offset-after:WriteTo-stream-like", fmt.Sprintf("%s: WriteTo from offset 10 of a %d-byte object answered in short reads returned (%d, %v), delivered %d bytes (first difference at %d), File offset afterwards %d", label, size, n, werr, buf.Len(), vfFirstDiff(buf.Bytes(), content[10:]), off), nil)
		}
		f.Close()
		sess.Close()
	}
	store.ShortAt = nil
}

// c12CloseOnLostConnection: Close on a File whose connection is already gone reports the loss,
// and afterwards the File is closed like any other (every method: os.ErrClosed; at most the
// one CLOSE on the wire).
func c12CloseOnLostConnection(u *vfUnit, sc vfSrvCfg, cfgLabel, dir string, store *vfStore) {
	p := "/lost"
	if sc.Kind == vfOS {
		p = filepath.Join(dir, "lost")
		os.WriteFile(p, []byte("0123456789"), 0o644)
	} else {
		store.CloseErr = nil
		store.Put(p, []byte("0123456789"))
	}
	sess, err := vfConnect(sc, vfPipeOpts{})
	if err != nil {
		u.Inconclusive("connect: %v", err)
		return
	}
	f, err := sess.C.OpenFile(p, os.O_RDWR)
	if err != nil {
		u.Violation("open-failed", cfgLabel+": "+err.Error(), nil)
		sess.Close()
		return
	}
	f.Read(make([]byte, 3))
	sess.sEnd.ForceClose() // the server side of the transport goes away
	d := vfGo(func() { sess.C.Wait() })
	if w, dump := vfAwait(d, 60*time.Second); w != vfDone {
		if w == vfStuck {
			u.Violation("wait-after-loss", cfgLabel+": Wait does not return after the connection was lost\n"+vfTrim(dump, 2000), nil)
		} else {
			u.Inconclusive("wait after loss: wall-clock cap")
		}
		return
	}
	label := cfgLabel + "/close-after-connection-loss"
	handle := f.handle
	if err := f.Close(); err == nil {
		u.Violation("close-on-lost-connection-nil", label+": Close returned nil although the CLOSE request cannot have been answered", nil)
	}
	u.Count("closes_after_connection_loss", 1)
	_, e1 := f.Read(make([]byte, 4))
	_, e2 := f.WriteAt([]byte("x"), 0)
	_, e3 := f.Seek(0, io.SeekEnd)
	_, e4 := f.Stat()
	e5 := f.Close()
	for k, e := range []error{e1, e2, e3, e4, e5} {
		u.Count("closed_method_checks", 1)
		if !errors.Is(e, os.ErrClosed) {
			u.Violation("closed-file-method-after-loss:"+[]string{"Read", "WriteAt", "Seek", "Stat", "Close"}[k], fmt.Sprintf("%s: %s on the closed File (handle %q) returned %v instead of os.ErrClosed", label, []string{"Read", "WriteAt", "Seek", "Stat", "Close"}[k], handle, e), nil)
		}
	}
	sess.Close()
}

// c12CloseWriteReportedFailed: the transport reports the write of the CLOSE request as failed, once (with nothing
// or with all of it delivered), and keeps working. Whatever value the failure has (interrupted, temporary, timeout,
// end-of-file, ...): at most one CLOSE for the handle is on the wire, nothing carrying the handle follows, and the
// File is closed.
func c12CloseWriteReportedFailed(u *vfUnit, sc vfSrvCfg, cfgLabel, dir string, store *vfStore) {
	pool := vfFaultPool()
	for k := 0; k < 4; k++ {
		pi := (u.Index*4 + k) % (2 * len(pool))
		ferr, full := pool[pi%len(pool)], pi >= len(pool)
		p := fmt.Sprintf("/trans%d", k)
		if sc.Kind == vfOS {
			p = filepath.Join(dir, fmt.Sprintf("trans%d", k))
			os.WriteFile(p, []byte("0123456789"), 0o644)
		} else {
			store.CloseErr = nil
			store.Put(p, []byte("0123456789"))
		}
		sess, err := vfConnect(sc, vfPipeOpts{})
		if err != nil {
			u.Inconclusive("connect: %v", err)
			return
		}
		f, err := sess.C.OpenFile(p, os.O_RDWR)
		if err != nil {
			u.Violation("open-failed", cfgLabel+": "+err.Error(), nil)
			sess.Close()
			return
		}
		f.Read(make([]byte, 3))
		label := fmt.Sprintf("%s/close-write-reported-failed(%v, delivered=%v)", cfgLabel, ferr, full)
		handle := f.handle
		var mu sync.Mutex
		var fr vfFramer
		closes, after := 0, 0
		sess.Ctl.Tap(vfC2S, func(b []byte) {
			mu.Lock()
			defer mu.Unlock()
			for _, body := range fr.Feed(b) {
				q, err := vfParse(body, false)
				if err != nil {
					continue
				}
				if q.Type == rfClose && q.Handle == handle {
					closes++
				} else if closes > 0 && q.Handle == handle && q.Handle != "" {
					after++
				}
			}
		})
		sess.Ctl.TransientFailWrite(vfC2S, 1, ferr, full)
		var cerr error
		if w, dump := vfAwait(vfGo(func() { cerr = f.Close() }), 60*time.Second); w != vfDone {
			if w == vfStuck {
				u.Violation("close-hangs-after-write-error", label+": Close does not return\n"+vfTrim(dump, 2000), nil)
			} else {
				u.Inconclusive("%s: wall-clock cap", label)
			}
			sess.sEnd.ForceClose()
			sess.cEnd.ForceClose()
			return
		}
		_, e1 := f.Read(make([]byte, 4))
		_, e2 := f.WriteAt([]byte("x"), 0)
		_, e4 := f.Stat()
		e5 := f.Close()
		for i, e := range []error{e1, e2, e4, e5} {
			u.Count("closed_method_checks", 1)
			if !errors.Is(e, os.ErrClosed) {
				u.Violation("closed-file-method-after-write-error:"+[]string{"Read", "WriteAt", "Stat", "Close"}[i], fmt.Sprintf("%s: %s on the closed File returned %v instead of os.ErrClosed", label, []string{"Read", "WriteAt", "Stat", "Close"}[i], e), nil)
			}
		}
		mu.Lock()
		nc, na := closes, after
		mu.Unlock()
		// (a request the transport did not take may be written again; one it did take may not)
		if nc > 1 || (full && nc != 1) || na != 0 {
			u.Violation("close-requests-on-wire-after-write-error", fmt.Sprintf("%s: %d CLOSE requests for the handle reached the wire and %d later requests carry the handle", label, nc, na), nil)
		}
		if cerr == nil && nc == 0 {
			u.Violation("close-nil-after-write-error", label+": Close returned nil although no CLOSE request reached the wire", nil)
		}
		u.Count("closes_with_write_reported_failed", 1)
		u.SetAdd("write_failure_values", fmt.Sprintf("%T/%v/%v", ferr, ferr, full))
		sess.Ctl.Tap(vfC2S, nil)
		sess.Close()
	}
}

// c12SharedWriteTo: several goroutines call WriteTo on one File at the same time. Each call starts at the offset
// current when it takes its turn and advances it by what it transferred, so whatever the order the calls take
// effect in: the sinks together receive the bytes from the starting offset to the end exactly once, each sink a
// contiguous range, and the offset ends at the file's size.
func c12SharedWriteTo(u *vfUnit, sc vfSrvCfg, cfgLabel, dir string, store *vfStore, P int) {
	size := 6*P + 17
	if size > 200000 {
		size = 200000
	}
	data := vfPattern(uint64(9000+u.Index), 0, size)
	p := "/sharedwt"
	if sc.Kind == vfOS {
		p = filepath.Join(dir, "sharedwt")
		os.WriteFile(p, data, 0o644)
	} else {
		store.CloseErr = nil
		store.Put(p, data)
	}
	sess, err := vfConnect(sc, vfPipeOpts{})
	if err != nil {
		u.Inconclusive("connect: %v", err)
		return
	}
	defer sess.Close()
	for round := 0; round < 3; round++ {
		f, err := sess.C.Open(p)
		if err != nil {
			u.Violation("open-failed", cfgLabel+": "+err.Error(), nil)
			return
		}
		start := int64(round * 7)
		f.Seek(start, io.SeekStart)
		nG := 2 + round%2
		label := fmt.Sprintf("%s/shared-WriteTo/goroutines=%d/start=%d/size=%d", cfgLabel, nG, start, size)
		sinks := make([]bytes.Buffer, nG)
		ns := make([]int64, nG)
		errs := make([]error, nG)
		var wg sync.WaitGroup
		gate := make(chan struct{})
		for g := 0; g < nG; g++ {
			wg.Add(1)
			go func(g int) {
				defer wg.Done()
				<-gate
				ns[g], errs[g] = f.WriteTo(c12Opaque2{&sinks[g]})
			}(g)
		}
		close(gate)
		if w, dump := vfAwait(vfGo(wg.Wait), 120*time.Second); w != vfDone {
			if w == vfStuck {
				u.Violation("shared-writeto-hangs", label+": the calls do not return\n"+vfTrim(dump, 2000), nil)
			} else {
				u.Inconclusive("%s: wall-clock cap", label)
			}
			return
		}
		var total int64
		covered := make([]int, size)
		problem := ""
		for g := 0; g < nG; g++ {
			if errs[g] != nil {
				problem = fmt.Sprintf("call %d returned error %v", g, errs[g])
			}
			if ns[g] != int64(sinks[g].Len()) {
				problem = fmt.Sprintf("call %d returned count %d but its sink received %d bytes", g, ns[g], sinks[g].Len())
			}
			total += ns[g]
			b := sinks[g].Bytes()
			if len(b) == 0 {
				continue
			}
			// a contiguous range of the file: find it by the pattern (the pattern has no long repeats)
			at := bytes.Index(data, b)
			if bytes.HasPrefix(data[start:], b) {
				at = int(start)
			}
			if at < 0 {
				problem = fmt.Sprintf("call %d received %d bytes that are not a contiguous range of the file", g, len(b))
				continue
			}
			for i := at; i < at+len(b); i++ {
				covered[i]++
			}
		}
		if problem == "" {
			for i := int(start); i < size; i++ {
				if covered[i] != 1 {
					problem = fmt.Sprintf("byte %d of the file was transferred %d times", i, covered[i])
					break
				}
			}
		}
		cur, serr := f.Seek(0, io.SeekCurrent)
		if problem == "" && (serr != nil || cur != int64(size)) {
			problem = fmt.Sprintf("the offset afterwards is %d (err %v), the file ends at %d", cur, serr, size)
		}
		if problem == "" && total != int64(size)-start {
			problem = fmt.Sprintf("the calls transferred %d bytes together, %d lie between the starting offset and the end", total, int64(size)-start)
		}
		if problem != "" {
			u.Violation("shared-writeto", fmt.Sprintf("%s: counts %v: %s", label, ns, problem), nil)
		}
		u.Count("shared_writeto_rounds", 1)
		f.Close()
	}
}

// c12FailingSource delivers what its reader has and then fails with its own error; Len() announces more
type c12FailingSource struct {
	r        *bytes.Reader
	announce int
}

func (s *c12FailingSource) Len() int { return s.announce }
func (s *c12FailingSource) Read(p []byte) (int, error) {
	n, err := s.r.Read(p)
	if err == io.EOF {
		return n, errors.New("source gave out")
	}
	return n, err
}

type c12Opaque2 struct{ w io.Writer }

func (o c12Opaque2) Write(p []byte) (int, error) { return o.w.Write(p) }

func c01Class12(v, P, C int) string {
	switch {
	case v == 0:
		return "0"
	case v < P:
		return "<P"
	case v == P:
		return "=P"
	case v <= P*C:
		return "<=PC"
	}
	return ">PC"
}

type c12Opaque struct{ r io.Reader }

func (o c12Opaque) Read(p []byte) (int, error) { return o.r.Read(p) }

// c12Closed closes f and checks the closed-state clauses.
func c12Closed(u *vfUnit, sess *vfSession, f *File, label string, closeFails bool) {
	handle := f.handle
	var mu sync.Mutex
	var fr vfFramer
	closes, after := 0, 0
	sess.Ctl.Tap(vfC2S, func(p []byte) {
		mu.Lock()
		defer mu.Unlock()
		for _, b := range fr.Feed(p) {
			q, err := vfParse(b, false)
			if err != nil {
				continue
			}
			if q.Type == rfClose && q.Handle == handle {
				closes++
			} else if closes > 0 && q.Handle == handle && q.Handle != "" {
				after++
			}
		}
	})
	defer sess.Ctl.Tap(vfC2S, nil)
	if err := f.Close(); err != nil && !closeFails {
		u.Violation("close-error", fmt.Sprintf("%s: Close returned %v", label, err), nil)
	} else if closeFails {
		// the server answered the CLOSE with an error status: the handle is gone all the same
		label += fmt.Sprintf("/close-answered-with-error(%v)", err)
		u.Count("closes_answered_with_error", 1)
		if err == nil {
			u.Violation("close-error-lost", fmt.Sprintf("%s: the server answered CLOSE with an error status, Close returned nil", label), nil)
		}
	}
	type chk struct {
		name string
		err  error
	}
	var cs []chk
	_, e1 := f.Read(make([]byte, 4))
	cs = append(cs, chk{"Read", e1})
	_, e2 := f.Write([]byte("x"))
	cs = append(cs, chk{"Write", e2})
	_, e3 := f.ReadAt(make([]byte, 4), 0)
	cs = append(cs, chk{"ReadAt", e3})
	_, e4 := f.WriteAt([]byte("x"), 0)
	cs = append(cs, chk{"WriteAt", e4})
	_, e5 := f.Seek(0, io.SeekStart)
	cs = append(cs, chk{"Seek", e5})
	_, e6 := f.ReadFrom(bytes.NewReader([]byte("abc")))
	cs = append(cs, chk{"ReadFrom", e6})
	_, e7 := f.ReadFromWithConcurrency(bytes.NewReader([]byte("abc")), 2)
	cs = append(cs, chk{"ReadFromWithConcurrency", e7})
	_, e8 := f.WriteTo(io.Discard)
	cs = append(cs, chk{"WriteTo", e8})
	_, e9 := f.Stat()
	cs = append(cs, chk{"Stat", e9})
	cs = append(cs, chk{"Truncate", f.Truncate(1)})
	cs = append(cs, chk{"Chmod", f.Chmod(0o600)})
	cs = append(cs, chk{"Chown", f.Chown(1, 1)})
	cs = append(cs, chk{"Sync", f.Sync()})
	cs = append(cs, chk{"SetExtendedData", f.SetExtendedData("x", nil)})
	cs = append(cs, chk{"Close", f.Close()})
	_, e10 := f.Read(nil)
	cs = append(cs, chk{"Read(empty)", e10})
	for _, c := range cs {
		u.Count("closed_method_checks", 1)
		if !errors.Is(c.err, os.ErrClosed) {
			u.Violation("closed-file-method:"+c.name, fmt.Sprintf("%s: %s on a closed File returned %v instead of os.ErrClosed", label, c.name, c.err), nil)
		}
	}
	mu.Lock()
	defer mu.Unlock()
	if closes != 1 {
		u.Violation(fmt.Sprintf("close-requests-sent-%d", closes), fmt.Sprintf("%s: %d CLOSE requests for handle %q were written to the wire", label, closes, handle), nil)
	}
	if after > 0 {
		u.Violation("request-after-close-on-wire", fmt.Sprintf("%s: %d requests carrying handle %q were written after its CLOSE", label, after, handle), nil)
	}
}

// c12CloseRaceSync: Close racing with Sync against a peer that advertises fsync@openssh.com (the package's own servers do
// not, so Sync never reaches the wire against them): nothing carrying the handle is written after its CLOSE.
func c12CloseRaceSync(u *vfUnit) {
	for round := 0; round < 12; round++ {
		model := &vfModel{handles: map[string]uint64{}, writes: map[string][]byte{}, inflight: map[uint32]bool{}}
		var mu sync.Mutex
		closeSeen, after := 0, 0
		afterDesc := ""
		handle := ""
		peer := &vfPeer{Handler: model.handler,
			VersionFrame: vfPkt{Type: rfVersion, Version: 3, Exts: [][2]string{{"fsync@openssh.com", "1"}}}.Frame(),
			OnRequest: func(req vfPkt, raw []byte, perr error) {
				mu.Lock()
				defer mu.Unlock()
				if perr != nil || handle == "" {
					return
				}
				if req.Type == rfClose && req.Handle == handle {
					closeSeen++
				} else if closeSeen > 0 && req.Handle == handle {
					after++
					afterDesc = req.String()
				}
			}}
		c, _, _, ce, err := vfPeerClient(peer, vfPipeOpts{})
		if err != nil {
			u.Inconclusive("connect: %v", err)
			return
		}
		f, err := c.OpenFile("/f/77", os.O_RDWR)
		if err != nil {
			u.Violation("open-failed", "close-race-sync: "+err.Error(), nil)
			ce.Close()
			peer.Stop()
			return
		}
		mu.Lock()
		handle = f.handle
		mu.Unlock()
		nG := 2 + round%5
		var wg sync.WaitGroup
		var started atomic.Int32
		stop := make(chan struct{})
		for g := 0; g < nG; g++ {
			wg.Add(1)
			go func() {
				defer wg.Done()
				for it := 0; it < 300; it++ {
					select {
					case <-stop:
						return
					default:
					}
					started.Add(1)
					if err := f.Sync(); errors.Is(err, os.ErrClosed) && it > 3 {
						return
					}
				}
			}()
		}
		for spin := 0; started.Load() < int32(1+round*3) && spin < 100000; spin++ {
			runtime.Gosched()
		}
		label := fmt.Sprintf("close-race-sync/goroutines=%d/round=%d", nG, round)
		if w, dump := vfAwait(vfGo(func() { f.Close(); wg.Wait() }), 120*time.Second); w != vfDone {
			close(stop)
			if w == vfStuck {
				u.Violation("close-hangs", label+": Close racing with Sync does not return\n"+vfTrim(dump, 2000), nil)
			} else {
				u.Inconclusive("%s: wall-clock cap", label)
			}
			ce.Close()
			peer.Stop()
			return
		}
		vfAwait(vfGo(func() { c.Close() }), 60*time.Second)
		peer.Stop()
		ce.Close()
		u.Count("close_races", 1)
		u.Count("close_races_against_a_peer_with_fsync", 1)
		mu.Lock()
		if closeSeen != 1 {
			u.Violation(fmt.Sprintf("close-requests-sent-%d", closeSeen), fmt.Sprintf("%s: %d CLOSE requests for the handle were written", label, closeSeen), nil)
		}
		if after > 0 {
			u.Violation("request-after-close-on-wire", fmt.Sprintf("%s: %d request(s) carrying the closed handle were written after its CLOSE, e.g. %s", label, after, afterDesc), nil)
		}
		mu.Unlock()
	}
}

func c12CloseRaces(u *vfUnit) {
	c12CloseRaceSync(u)
	r := u.Rng
	i := u.Index / 2
	kind := vfKind(i % 2)
	P := []int{3, 64, 1000}[i%3]
	sc := vfSrvCfg{Kind: kind}
	var store *vfStore
	dir := ""
	if kind == vfRS {
		store = vfNewStore()
		sc.H = store.Handlers(vfHandlerOpt{OpenFile: true, CmdAll: true, ListAll: true})
	} else {
		dir = u.TempDir()
	}
	hooks := vfInstallHooks(vfHookCfg{Seed: r.Uint64(), NoLog: true, MaxSleepUs: 250, DelayPct: map[int]int{vhCliAfterRegister: 50, vhCliBeforeDeliver: 30, vhSrvWorker: 20, vhRsWorker: 20}})
	defer hooks.Uninstall()
	sess, _, err := vfConnectProxied(sc, 2+r.Intn(6), r.Fork(), MaxPacketUnchecked(P), MaxConcurrentRequestsPerFile(1+r.Intn(4)), UseConcurrentWrites(i%2 == 0))
	if err != nil {
		u.Inconclusive("connect: %v", err)
		return
	}
	for ri := 0; ri < 30; ri++ {
		p := fmt.Sprintf("/r%d", ri)
		if kind == vfOS {
			p = filepath.Join(dir, fmt.Sprintf("r%d", ri))
			os.WriteFile(p, vfPattern(5, 0, 5000), 0o644)
		} else {
			store.Put(p, vfPattern(5, 0, 5000))
		}
		f, err := sess.C.OpenFile(p, os.O_RDWR)
		if err != nil {
			u.Violation("open-failed", err.Error(), nil)
			return
		}
		handle := f.handle
		nG := 2 + r.Intn(7)
		label := fmt.Sprintf("%v/P=%d/goroutines=%d", kind, P, nG)
		var mu sync.Mutex
		var fr vfFramer
		closesSeen, afterClose := 0, 0
		var afterDesc string
		sess.Ctl.Tap(vfC2S, func(pp []byte) {
			mu.Lock()
			defer mu.Unlock()
			for _, b := range fr.Feed(pp) {
				q, err := vfParse(b, false)
				if err != nil {
					continue
				}
				if q.Type == rfClose && q.Handle == handle {
					closesSeen++
				} else if closesSeen > 0 && q.Handle == handle {
					afterClose++
					afterDesc = q.String()
				}
			}
		})
		var closed atomic.Bool
		var startedBeforeClose, finishedAfterClose, errClosedSeen atomic.Int32
		var badErr atomic.Value
		var wg sync.WaitGroup
		stop := make(chan struct{})
		for g := 0; g < nG; g++ {
			wg.Add(1)
			go func(g int) {
				defer wg.Done()
				rr := vfNewRand(uint64(g)*77 + uint64(ri))
				for it := 0; it < 400; it++ {
					select {
					case <-stop:
						return
					default:
					}
					wasClosed := closed.Load()
					var err error
					op := (g + it) % 8
					switch op {
					case 5:
						// (every method that sends the handle, not only the common ones)
						err = f.SetExtendedData("", []StatExtended{{ExtType: "vf@example.com", ExtData: "1"}})
					case 6:
						err = f.Chown(0, 0)
					case 7:
						_, err = f.Seek(0, io.SeekEnd)
					case 0:
						_, err = f.ReadAt(make([]byte, 1+rr.Intn(3*P)), int64(rr.Intn(4000)))
					case 1:
						_, err = f.WriteAt(vfPattern(uint64(g), 0, 1+rr.Intn(3*P)), int64(rr.Intn(4000)))
					case 2:
						_, err = f.Stat()
					case 3:
						err = f.Truncate(5000)
					case 4:
						err = f.Chmod(0o644)
					}
					if !wasClosed {
						startedBeforeClose.Add(1)
						if closed.Load() {
							finishedAfterClose.Add(1)
						}
					}
					if errors.Is(err, os.ErrClosed) {
						errClosedSeen.Add(1)
						if it > 5 && wasClosed {
							return
						}
					} else if wasClosed && err == nil {
						badErr.Store(fmt.Sprintf("a call started after Close had returned succeeded (op %d)", op))
					} else if err != nil && err != io.EOF {
						badErr.Store(fmt.Sprintf("unexpected error %v (op %d)", err, op))
					}
				}
			}(g)
		}
		// let the loops run until a seeded number of calls has been started, then close at once
		// (twice, concurrently): Close always lands while calls are in progress
		threshold := int32(1 + r.Intn(40))
		for spin := 0; startedBeforeClose.Load() < threshold && spin < 200000; spin++ {
			runtime.Gosched()
		}
		var e1, e2 error
		var cwg sync.WaitGroup
		cwg.Add(2)
		go func() { defer cwg.Done(); e1 = f.Close() }()
		go func() { defer cwg.Done(); e2 = f.Close() }()
		cdone := vfGo(func() { cwg.Wait() })
		if w, dump := vfAwait(cdone, 120*time.Second); w != vfDone {
			u.Violation("close-hangs", fmt.Sprintf("%s: Close racing with other methods does not return (%v)\n%s", label, w, vfTrim(dump, 2500)), nil)
			close(stop)
			return
		}
		closed.Store(true)
		gdone := vfGo(func() { wg.Wait() })
		if w, dump := vfAwait(gdone, 120*time.Second); w != vfDone {
			u.Violation("calls-hang-after-close", fmt.Sprintf("%s: method calls racing with Close do not return (%v)\n%s", label, w, vfTrim(dump, 2500)), nil)
			close(stop)
			return
		}
		sess.Ctl.Tap(vfC2S, nil)
		u.Count("close_races", 1)
		u.Eval(fmt.Sprintf("race/%v/P=%d/g=%d", kind, P, nG))
		if finishedAfterClose.Load() > 0 || errClosedSeen.Load() > 0 {
			u.Count("races_where_close_overlapped_calls", 1)
		}
		okCloses := 0
		for _, e := range []error{e1, e2} {
			if e == nil {
				okCloses++
			} else if !errors.Is(e, os.ErrClosed) {
				u.Violation("racing-close-error", fmt.Sprintf("%s: Close returned %v", label, e), nil)
			}
		}
		if okCloses != 1 {
			u.Violation("double-close-both-succeed-or-fail", fmt.Sprintf("%s: two concurrent Close calls returned (%v, %v); exactly one must perform the close", label, e1, e2), nil)
		}
		if v := badErr.Load(); v != nil {
			u.Violation("call-after-close", label+": "+v.(string), nil)
		}
		mu.Lock()
		if closesSeen != 1 {
			u.Violation(fmt.Sprintf("close-requests-sent-%d", closesSeen), fmt.Sprintf("%s: %d CLOSE requests for handle %q on the wire", label, closesSeen, handle), nil)
		}
		if afterClose > 0 {
			u.Violation("request-after-close-on-wire", fmt.Sprintf("%s: %d request(s) carrying the closed handle %q were written after its CLOSE, e.g. %s", label, afterClose, handle, afterDesc), nil)
		}
		mu.Unlock()
		// after Close returned every method is ErrClosed
		if _, err := f.ReadAt(make([]byte, 1), 0); !errors.Is(err, os.ErrClosed) {
			u.Violation("closed-file-method:ReadAt", fmt.Sprintf("%s: ReadAt after a raced Close returned %v", label, err), nil)
		}
		if ri == 0 {
			u.Sample(map[string]any{"race": label, "calls_started_before_close": startedBeforeClose.Load(), "calls_that_saw_ErrClosed": errClosedSeen.Load()})
		}
	}
	if msg := sess.Close(); msg != "" {
		u.Violation("session-close", msg, nil)
	}
}
