//go:build verif

package sftp

// vfModel: a scripted-peer reply function whose result is unique to every request.

import (
	"bytes"
	"fmt"
	"strconv"
	"strings"
	"sync"
)

func vfModelNum(p string) uint64 {
	i := strings.LastIndex(p, "/")
	n, _ := strconv.ParseUint(p[i+1:], 10, 64)
	return n
}

func vfModelSize(n uint64) uint64 { return 1000 + n%5000 }

// c03Model: the peer's reply to a request is a pure function of the request.
type vfModel struct {
	mu          sync.Mutex
	handles     map[string]uint64 // handle -> file number
	nh          int
	writes      map[string][]byte // handle:offset -> data
	inflight    map[uint32]bool
	maxIn       int
	noWriteFail bool    // if set: WRITE never fails
	short       *vfRand // if set: READ replies carry a random non-empty prefix of what was asked (legal for a server)
	dupID       string
	badFrame    string
	dirEntries  int            // if > 0: every directory handle lists that many entries in one NAME reply, then EOF
	dirRead     map[string]int // READDIR requests seen per directory handle
}

func (m *vfModel) handler(req vfPkt, raw []byte) []byte {
	st := func(code uint32, msg string) []byte { return vfStatusFrame(req.ID, code, msg) }
	n := vfModelNum(req.Path)
	switch req.Type {
	case rfStat:
		return vfPkt{Type: rfAttrs, ID: req.ID, Attrs: vfAttrs{Flags: 0xD, Size: vfModelSize(n), Perm: 0o100644, Atime: uint32(n), Mtime: uint32(n + 7)}}.Frame()
	case rfLstat:
		return vfPkt{Type: rfAttrs, ID: req.ID, Attrs: vfAttrs{Flags: 0xD, Size: vfModelSize(n) + 1, Perm: 0o100600, Atime: uint32(n), Mtime: uint32(n + 9)}}.Frame()
	case rfReadlink:
		return vfPkt{Type: rfName, ID: req.ID, Names: []vfName{{Name: fmt.Sprintf("/target/%d", n), Long: "x"}}}.Frame()
	case rfRealpath:
		return vfPkt{Type: rfName, ID: req.ID, Names: []vfName{{Name: fmt.Sprintf("/real/%d", n), Long: "x"}}}.Frame()
	case rfMkdir:
		if n%3 == 0 {
			return st(rfFailure, fmt.Sprintf("mk-%d", n))
		}
		return st(rfOK, "")
	case rfRemove:
		if n%2 == 0 {
			return st(rfPermDenied, fmt.Sprintf("rm-%d", n))
		}
		return st(rfOK, "")
	case rfRmdir:
		return st(rfFailure, fmt.Sprintf("rmdir-%d", n))
	case rfRename:
		if n%4 == 1 {
			return st(rfNoSuchFile, fmt.Sprintf("mv-%d", n))
		}
		return st(rfOK, "")
	case rfOpen:
		m.mu.Lock()
		m.nh++
		h := fmt.Sprintf("h%d-%d", n, m.nh)
		m.handles[h] = n
		m.mu.Unlock()
		return vfPkt{Type: rfHandle, ID: req.ID, Handle: h}.Frame()
	case rfClose:
		return st(rfOK, "")
	case rfOpendir:
		if m.dirEntries > 0 {
			m.mu.Lock()
			m.nh++
			h := fmt.Sprintf("dir-%d", m.nh)
			m.mu.Unlock()
			return vfPkt{Type: rfHandle, ID: req.ID, Handle: h}.Frame()
		}
		return vfPkt{Type: rfHandle, ID: req.ID, Handle: "dir"}.Frame()
	case rfReaddir:
		if m.dirEntries > 0 {
			m.mu.Lock()
			if m.dirRead == nil {
				m.dirRead = map[string]int{}
			}
			m.dirRead[req.Handle]++
			first := m.dirRead[req.Handle] == 1
			m.mu.Unlock()
			if first {
				var names []vfName
				for i := 0; i < m.dirEntries; i++ {
					nm := fmt.Sprintf("entry-%d", i)
					names = append(names, vfName{Name: nm, Long: "-rw-r--r-- 1 0 0 7 Jan  1 00:00 " + nm, Attrs: vfAttrs{Flags: 0xD, Size: 7, Perm: 0o100644, Mtime: 1}})
				}
				return vfPkt{Type: rfName, ID: req.ID, Names: names}.Frame()
			}
		}
		return st(rfEOF, "EOF")
	case rfFstat:
		m.mu.Lock()
		fn := m.handles[req.Handle]
		m.mu.Unlock()
		return vfPkt{Type: rfAttrs, ID: req.ID, Attrs: vfAttrs{Flags: 0xD, Size: vfModelSize(fn), Perm: 0o100644, Mtime: uint32(fn)}}.Frame()
	case rfRead:
		m.mu.Lock()
		fn, ok := m.handles[req.Handle]
		m.mu.Unlock()
		if !ok {
			return st(rfFailure, "bad handle")
		}
		size := vfModelSize(fn)
		if req.Off >= size {
			return st(rfEOF, "EOF")
		}
		l := min(uint64(req.Len), size-req.Off)
		if m.short != nil && l > 1 {
			m.mu.Lock()
			l = 1 + uint64(m.short.Intn(int(l)))
			m.mu.Unlock()
		}
		return vfPkt{Type: rfData, ID: req.ID, Data: vfPattern(fn, int64(req.Off), int(l))}.Frame()
	case rfWrite:
		m.mu.Lock()
		fn, ok := m.handles[req.Handle]
		if ok {
			// the data must be the pattern the writer derives from (file, offset): a mixed-up frame shows here
			if !bytes.Equal(req.Data, vfPattern(fn+1000, int64(req.Off), len(req.Data))) {
				m.badFrame = fmt.Sprintf("WRITE on %s at %d carries bytes that do not belong to that file/offset", req.Handle, req.Off)
			}
		}
		m.mu.Unlock()
		if !ok {
			return st(rfFailure, "bad handle")
		}
		if req.Off%7 == 3 && !m.noWriteFail {
			return st(rfFailure, fmt.Sprintf("wr-%d", req.Off))
		}
		return st(rfOK, "")
	}
	if req.Type == rfExtended && req.Ext == "fsync@openssh.com" {
		return st(rfOK, "")
	}
	return st(rfUnsupported, "unsupported")
}
