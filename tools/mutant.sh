#!/bin/bash
# tools/mutant.sh <ID> '<shell command that edits the scratch copy>' [tier]
# Validates a monitor: copies /repo to a scratch dir, applies the edit, checks that the
# mutant still builds and passes the repository's own suite, runs ./check <ID> against it
# and removes the copy. Exit 0 = mutant detected (check reported a VIOLATION).
set -u
ID=$1; EDIT=$2; TIER=${3:-quick}
D=$(mktemp -d /tmp/vfmut-XXXXXX)/sftp
mkdir -p "$D"; trap 'rm -rf "$(dirname "$D")"' EXIT
rsync -a --exclude .git /repo/ "$D"/
( cd "$D" && eval "$EDIT" ) || { echo "MUTANT: edit failed"; exit 3; }
if diff -rq /repo "$D" -x .git >/dev/null; then echo "MUTANT: edit changed nothing"; exit 3; fi
export GOFLAGS=-mod=mod GOPROXY=off
( cd "$D" && go build ./... ) || { echo "MUTANT: does not build"; exit 3; }
if ! ( cd "$D" && go test -vet=off -count=1 ./... >/tmp/vfmut-test.$$ 2>&1 ); then
  echo "MUTANT: killed by the repository's own suite (says nothing about the monitor)"; grep -E '^(--- FAIL|FAIL)' /tmp/vfmut-test.$$ | head -5; rm -f /tmp/vfmut-test.$$; exit 4
fi
rm -f /tmp/vfmut-test.$$
cd "$(dirname "$0")/.."
OUT=$(VERIF_REPO="$D" ./check "$ID" --tier "$TIER" 2>&1); RC=$?
echo "$OUT" | grep -E 'VIOLATION|KNOWN|INCONCLUSIVE|OK property|observed' | head -12
echo "$OUT" | grep -A1 VIOLATION | grep -v VIOLATION | head -6
# do not leave evidence / replay files of a mutant run behind
git checkout -- evidence 2>/dev/null
if [ $RC -eq 1 ]; then echo "MUTANT DETECTED ($ID)"; exit 0; else echo "MUTANT MISSED ($ID) rc=$RC"; exit 1; fi
