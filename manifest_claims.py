HOOK_COMMITS = ["c4cdae3"]
RM = "runtime monitoring"
claim("C17", "exploration", RM + ": exhaustive table sweeps + host-truth differential (os twin) over real client/server executions",
      "Exhaustive over the finite domains (2^16 wire words, 28672 os.FileModes, 4096 chmod values, 32 setstat flag subsets) and one object per file kind the host can create; long names compared on seeded entries. Held on everything executed; values outside those domains are not claimed.",
      "Trusts package os / the Linux kernel as ground truth, the harness's independent POSIX table and reference codec; runs as root.")
claim("C06", "exploration", RM + ": three-way differential of both codecs against an independent reference codec over seeded packets; real client decoding scripted-peer replies",
      "Seeded, boundary-biased packets of every type with all 32 attribute-flag subsets are encoded by packet.go (through sendPacket), by filexfer and by the reference codec and must be byte-identical, then decoded by every decoder and compared field by field; responses packet.go only encodes are decoded by the real client. Held on the packets generated (tens of thousands quick, ~0.5M thorough); the value space is sampled.",
      "Trusts the harness's reference codec as the statement of the draft / OpenSSH layouts.")
claim("C08", "fault_enumeration", RM + ": systematic mutation of valid encodings fed to every decoder, with recover(), child-process journal for fatal errors, allocation meter and counting reader",
      "Every truncation point, every 4-byte window replaced by 7 hostile values, every type byte and random bodies, for each of 30 packet kinds, through ~25 decoding entry points of both codecs; frame readers with declared length x available bytes tables. Verdict: no panic/fatal error, allocation <= 64*len+1MiB, refused frames consume no body bytes. Held on ~200k (quick) decodes.",
      "Affine allocation bound; single-goroutine allocation metering via runtime/metrics; RLIMIT_AS=3GiB children.")
claim("C09", "exploration", RM + ": differential against a writable twin server with a tree snapshot before/after every request",
      "Exhaustive request tables (64 open-flag sets x 6 targets x 2, 16 attr-flag subsets, every request type and extension name, handle sequences; absolute and relative paths) plus seeded sequences; after each request the served tree must be unchanged, requests that changed the writable twin must have been answered PERMISSION_DENIED and reading requests must be answered like the twin answers them. Held on ~4k (quick) requests.",
      "Runs as root on the sandbox file system; the writable Server is the reference for 'modifying' and 'keeps working'; atime excluded.")
