#!/usr/bin/env python3
"""Regenerates MANIFEST.json from the table below (keeps it valid at all times)."""
import json, os
HERE = os.path.dirname(os.path.abspath(__file__))
props = [json.loads(l) for l in open(os.path.join(HERE, "properties.jsonl"))]
ids = [p["id"] for p in props]

# id -> (level category, technique, level text, level note, design ref)
CLAIMED = {}
def claim(pid, cat, tech, text, note):
    CLAIMED[pid] = (cat, tech, text, note)

def also(pid, more):
    cat, tech, text, note = CLAIMED[pid]
    CLAIMED[pid] = (cat, tech, text.rstrip() + " " + more, note)

exec(open(os.path.join(HERE, "manifest_claims.py")).read())

checks = []
for pid in ids:
    if pid not in CLAIMED:
        continue
    cat, tech, text, note = CLAIMED[pid]
    checks.append({
        "property_id": pid,
        "quick_cmd": "./check %s --tier quick" % pid,
        "thorough_cmd": "./check %s --tier thorough" % pid,
        "evidence_file": "evidence/%s.json" % pid,
        "replay_cmd_template": "./check %s --replay {path}" % pid,
        "engine": "vf-harness",
        "level_claimed": {"category": cat, "text": text, "design_ref": "DESIGN.md §4 %s" % pid},
        "level_note": note,
        "technique": tech,
    })
na = [{"property_id": pid, "reason": "check not built yet in this session (work in progress; runtime monitoring applies, see DESIGN.md §4)"} for pid in ids if pid not in CLAIMED]
m = {
    "version": 1,
    "setup_cmd": "./check --setup",
    "hooks": {
        "guard": "verif (Go build tag)",
        "enable": "go test -c -tags verif -overlay <harness overlay> (done by ./check from /repo's working tree)",
        "baseline_off_cmd": "cd /repo && GOFLAGS=-mod=mod GOPROXY=off go test -vet=off -count=1 -timeout 25m ./...",
        "source_commits": HOOK_COMMITS,
        "add_only": True,
    },
    "engines": [{
        "name": "vf-harness", "path": "harness/", "serves_properties": sorted(CLAIMED),
        "kind_free_text": "in-package Go test harness injected with -overlay: hostile peers, cutting transports, hook-driven schedule perturbation, shadow-state/differential/linearizability oracles, Go race detector; parent/child processes with a journal for crash attribution",
    }],
    "checks": checks,
    "notes": "Technique family: runtime monitoring and sanitizers. Exit 0 held / 1 VIOLATION / 2 inconclusive. Known findings: known_findings.jsonl (never written at run time).",
    "not_applicable": na,
}
json.dump(m, open(os.path.join(HERE, "MANIFEST.json"), "w"), indent=1)
print("claimed:", sorted(CLAIMED), "not claimed:", [x["property_id"] for x in na])
