//go:build verif

package sftp

// C20 — No server reply can crash the client.
// A scripted peer answers every request plausibly; for each client operation and
// each request it issues, the reply to that request is replaced by a mutation of
// the valid reply. Oracles: no panic (recover in the caller, child journal for
// background goroutines), the call returns, bounded allocation, and afterwards
// the client still works or fails cleanly, Close returns and no goroutine is left.

import (
	"bytes"
	"encoding/binary"
	"errors"
	"fmt"
	"io"
	"os"
	"runtime"
	"strings"
	"sync"
	"testing"
	"time"
)

func TestVerifC20(t *testing.T) {
	vfMain(t, vfCheck{
		ID: "C20", Level: "fault_enumeration",
		Rule:        "for each of ~49 Client/File operations (single-request calls, composite calls, multi-chunk transfers under both concurrency settings, transfers in one-byte packets) and each request the operation issues (first 8), the valid reply is replaced by: a well-framed cut at every byte, every 4-byte window replaced by hostile lengths/counts {0,1,n-1,n+1,2^20,2^31-1,2^32-1} (quick: 3 of the 7 per window), each other reply type (ATTRS also with sizes 2^63-1, 2^63, 2^64-2, 2^64-1), a wrong id, random bodies, an over-long DATA, a length prefix promising up to 2^32-1 bytes; every process first runs a session with MaxPacketUnchecked(2^30) (no package-level state may carry over). A class is (operation, request index, reply type, mutation kind).",
		Assumptions: []string{"allocation bound per operation: 64 x bytes received + 3 MiB (client configured with 1 KiB packets and 4 concurrent requests so that legitimate buffers stay small)", "plain build (allocation meter); background panics are attributed through the child journal"},
		Units:       func(tier vfTier, seed uint64) int { return len(c20Ops()) },
		Shards: func(tier vfTier) int {
			if tier == vfThorough {
				return 15
			}
			return 12
		},
		Floors: map[string]int64{"mutated_replies": 4000, "operations": 40, "mutation_kinds": 6},
		Run:    c20Run,
	})
}

type c20Op struct {
	name string
	opts []ClientOption
	// run executes the operation; the returned error is informational
	run func(c *Client) error
}

const c20FileSize = 2500 // served file: 2.5 packets of 1000 bytes

func c20Ops() []c20Op {
	seq := []ClientOption{UseConcurrentReads(false), UseConcurrentWrites(false)}
	con := []ClientOption{UseConcurrentReads(true), UseConcurrentWrites(true)}
	withFile := func(fn func(f *File) error) func(c *Client) error {
		return func(c *Client) error {
			f, err := c.OpenFile("/file", os.O_RDWR)
			if err != nil {
				return err
			}
			defer f.Close()
			return fn(f)
		}
	}
	e := func(_ any, err error) error { return err }
	ops := []c20Op{
		{"Stat", nil, func(c *Client) error { return e(c.Stat("/file")) }},
		{"Lstat", nil, func(c *Client) error { return e(c.Lstat("/file")) }},
		{"ReadLink", nil, func(c *Client) error { return e(c.ReadLink("/link")) }},
		{"Link", nil, func(c *Client) error { return c.Link("/a", "/b") }},
		{"Symlink", nil, func(c *Client) error { return c.Symlink("/a", "/b") }},
		{"Chtimes", nil, func(c *Client) error { return c.Chtimes("/a", time.Unix(1, 0), time.Unix(2, 0)) }},
		{"Chown", nil, func(c *Client) error { return c.Chown("/a", 1, 2) }},
		{"Chmod", nil, func(c *Client) error { return c.Chmod("/a", 0o644) }},
		{"Truncate", nil, func(c *Client) error { return c.Truncate("/a", 10) }},
		{"SetExtendedData", nil, func(c *Client) error { return c.SetExtendedData("/a", []StatExtended{{"k", "v"}}) }},
		{"Open", nil, func(c *Client) error { return e(c.Open("/file")) }},
		{"Create", nil, func(c *Client) error { return e(c.Create("/new")) }},
		{"Mkdir", nil, func(c *Client) error { return c.Mkdir("/d") }},
		{"MkdirAll", nil, func(c *Client) error { return c.MkdirAll("/missing/x/y") }},
		{"Remove", nil, func(c *Client) error { return c.Remove("/file") }},
		{"Remove-failing", nil, func(c *Client) error { return c.Remove("/fail/file") }},
		{"RemoveDirectory", nil, func(c *Client) error { return c.RemoveDirectory("/dir") }},
		{"RemoveAll", nil, func(c *Client) error { return c.RemoveAll("/dir") }},
		{"Rename", nil, func(c *Client) error { return c.Rename("/a", "/b") }},
		{"PosixRename", nil, func(c *Client) error { return c.PosixRename("/a", "/b") }},
		{"RealPath", nil, func(c *Client) error { return e(c.RealPath("a/../b")) }},
		{"Getwd", nil, func(c *Client) error { return e(c.Getwd()) }},
		{"ReadDir", nil, func(c *Client) error { return e(c.ReadDir("/dir")) }},
		{"Glob", nil, func(c *Client) error { return e(c.Glob("/dir/*")) }},
		{"Walk", nil, func(c *Client) error {
			w := c.Walk("/dir")
			for i := 0; i < 20 && w.Step(); i++ {
			}
			return w.Err()
		}},
		{"StatVFS", nil, func(c *Client) error { return e(c.StatVFS("/")) }},
		{"File.Read", nil, withFile(func(f *File) error { return e(f.Read(make([]byte, 300))) })},
		{"File.ReadAt-1pkt", nil, withFile(func(f *File) error { return e(f.ReadAt(make([]byte, 900), 100)) })},
		{"File.ReadAt-seq", seq, withFile(func(f *File) error { return e(f.ReadAt(make([]byte, 2300), 0)) })},
		{"File.ReadAt-conc", con, withFile(func(f *File) error { return e(f.ReadAt(make([]byte, 2300), 0)) })},
		{"File.ReadAt-conc-eof", con, withFile(func(f *File) error { return e(f.ReadAt(make([]byte, 4000), 0)) })},
		{"File.Write", nil, withFile(func(f *File) error { return e(f.Write(make([]byte, 300))) })},
		{"File.WriteAt-seq", seq, withFile(func(f *File) error { return e(f.WriteAt(make([]byte, 2300), 10)) })},
		{"File.WriteAt-conc", con, withFile(func(f *File) error { return e(f.WriteAt(make([]byte, 2300), 10)) })},
		{"File.ReadFrom-seq", seq, withFile(func(f *File) error { return e(f.ReadFrom(bytes.NewReader(make([]byte, 2300)))) })},
		{"File.ReadFrom-conc", con, withFile(func(f *File) error { return e(f.ReadFrom(bytes.NewReader(make([]byte, 2300)))) })},
		{"File.ReadFromWithConcurrency", nil, withFile(func(f *File) error {
			return e(f.ReadFromWithConcurrency(struct{ io.Reader }{bytes.NewReader(make([]byte, 2300))}, 3))
		})},
		{"File.WriteTo-seq", seq, withFile(func(f *File) error { return e(f.WriteTo(io.Discard)) })},
		{"File.WriteTo-conc", con, withFile(func(f *File) error { return e(f.WriteTo(io.Discard)) })},
		{"File.WriteTo-conc-fstat", append([]ClientOption{UseFstat(true)}, con...), withFile(func(f *File) error { return e(f.WriteTo(io.Discard)) })},
		// a destination that can be told to grow (bytes.Buffer): the size a reply claims must not be taken at its word
		{"File.WriteTo-conc-buffer", con, withFile(func(f *File) error { var b bytes.Buffer; return e(f.WriteTo(&b)) })},
		{"File.WriteTo-seq-buffer", seq, withFile(func(f *File) error { var b bytes.Buffer; return e(f.WriteTo(&b)) })},
		// one-byte packets: the worker count is derived from size/packet-size (+1), which an absurd size can wrap
		{"File.WriteTo-conc-P1", append([]ClientOption{MaxPacketUnchecked(1)}, con...), withFile(func(f *File) error { return e(f.WriteTo(&c20LimitWriter{left: 40})) })},
		{"File.WriteTo-conc-P1-fstat", append([]ClientOption{MaxPacketUnchecked(1), UseFstat(true)}, con...), withFile(func(f *File) error { return e(f.WriteTo(&c20LimitWriter{left: 40})) })},
		{"File.Seek-end", nil, withFile(func(f *File) error { return e(f.Seek(-1, io.SeekEnd)) })},
		{"File.Stat", nil, withFile(func(f *File) error { return e(f.Stat()) })},
		{"File.Chmod", nil, withFile(func(f *File) error { return f.Chmod(0o600) })},
		{"File.Chown", nil, withFile(func(f *File) error { return f.Chown(1, 2) })},
		{"File.Truncate", nil, withFile(func(f *File) error { return f.Truncate(5) })},
		{"File.Sync", nil, withFile(func(f *File) error { return f.Sync() })},
		{"File.Close", nil, func(c *Client) error {
			f, err := c.Open("/file")
			if err != nil {
				return err
			}
			return f.Close()
		}},
	}
	return ops
}

// c20LimitWriter accepts a few bytes and then fails, so that a transfer in tiny packets stays short.
type c20LimitWriter struct{ left int }

func (w *c20LimitWriter) Write(p []byte) (int, error) {
	if len(p) > w.left {
		n := w.left
		w.left = 0
		return n, errors.New("writer full")
	}
	w.left -= len(p)
	return len(p), nil
}

// c20Valid computes the valid reply body for a request against a tiny fixed model.
func c20Valid(req vfPkt, readdirCalls *int) vfPkt {
	fileAttrs := vfAttrs{Flags: 0xF, Size: c20FileSize, UID: 1, GID: 2, Perm: 0o100644, Atime: 1500000000, Mtime: 1500000001}
	dirAttrs := vfAttrs{Flags: 0xF, Size: 4096, UID: 1, GID: 2, Perm: 0o40755, Atime: 1500000000, Mtime: 1500000001}
	isDir := func(p string) bool { return p == "/dir" || p == "/" || strings.HasSuffix(p, "/sub") }
	st := func(code uint32, msg string) vfPkt {
		return vfPkt{Type: rfStatus, ID: req.ID, Code: code, Msg: msg, Lang: "en"}
	}
	switch req.Type {
	case rfOpen:
		if strings.HasPrefix(req.Path, "/missing") {
			return st(rfNoSuchFile, "no such file")
		}
		return vfPkt{Type: rfHandle, ID: req.ID, Handle: "fh"}
	case rfOpendir:
		return vfPkt{Type: rfHandle, ID: req.ID, Handle: "dh"}
	case rfClose, rfWrite, rfSetstat, rfFsetstat, rfRename, rfSymlink:
		return st(rfOK, "")
	case rfMkdir:
		return st(rfOK, "")
	case rfRemove:
		if isDir(req.Path) || strings.HasPrefix(req.Path, "/fail") {
			return st(rfFailure, "is a directory")
		}
		return st(rfOK, "")
	case rfRmdir:
		if strings.HasPrefix(req.Path, "/fail") {
			return st(rfPermDenied, "denied")
		}
		return st(rfOK, "")
	case rfRead:
		if req.Off >= c20FileSize {
			return st(rfEOF, "EOF")
		}
		n := min(uint64(req.Len), c20FileSize-req.Off)
		return vfPkt{Type: rfData, ID: req.ID, Data: vfPattern(3, int64(req.Off), int(n))}
	case rfLstat, rfStat:
		if strings.HasPrefix(req.Path, "/missing") {
			return st(rfNoSuchFile, "no such file")
		}
		if isDir(req.Path) {
			return vfPkt{Type: rfAttrs, ID: req.ID, Attrs: dirAttrs}
		}
		return vfPkt{Type: rfAttrs, ID: req.ID, Attrs: fileAttrs}
	case rfFstat:
		return vfPkt{Type: rfAttrs, ID: req.ID, Attrs: fileAttrs}
	case rfReaddir:
		*readdirCalls++
		if *readdirCalls%2 == 1 {
			return vfPkt{Type: rfName, ID: req.ID, Names: []vfName{
				{Name: "a.txt", Long: "-rw-r--r-- 1 1 2 2500 a.txt", Attrs: fileAttrs},
				{Name: ".", Long: "drwxr-xr-x . ", Attrs: dirAttrs},
				{Name: "b", Long: "-rw-r--r-- 1 1 2 2500 b", Attrs: vfAttrs{Flags: 0x80000005, Size: 1, Perm: 0o100600, Ext: [][2]string{{"x", "y"}}}},
			}}
		}
		return st(rfEOF, "EOF")
	case rfReadlink, rfRealpath:
		return vfPkt{Type: rfName, ID: req.ID, Names: []vfName{{Name: "/resolved/path", Long: "/resolved/path", Attrs: vfAttrs{}}}}
	case rfExtended:
		if req.Ext == "statvfs@openssh.com" {
			return vfPkt{Type: rfExtendedReply, ID: req.ID, VFS: &vfStatVFS{4096, 4096, 100, 50, 40, 10, 5, 4, 9, 1, 255}}
		}
		return st(rfOK, "")
	}
	return st(rfUnsupported, "unsupported")
}

type c20Mut struct {
	kind string
	body []byte // replacement reply body (type+payload); nil = no mutation
	raw  bool   // body is a complete byte sequence for the wire (its own length prefix included)
}

func c20Mutations(u *vfUnit, valid vfPkt) []c20Mut {
	r := u.Rng
	body := valid.Body()
	var out []c20Mut
	for k := 1; k < len(body); k++ {
		if u.Tier == vfQuick && len(body) > 60 && !(k < 24 || k > len(body)-6 || r.Intn(100) < 25) {
			continue
		}
		out = append(out, c20Mut{kind: fmt.Sprintf("cut@%d", k), body: append([]byte(nil), body[:k]...)})
	}
	for k := 1; k+4 <= len(body); k++ {
		if u.Tier == vfQuick && len(body) > 80 && k > 40 && r.Intn(100) < 60 {
			continue
		}
		orig := binary.BigEndian.Uint32(body[k:])
		for hi, h := range c08HostileVals(orig) {
			if u.Tier == vfQuick && (hi+k)%7 > 2 && hi != 6 && hi != 3 && hi != 7 && hi != 8 {
				continue
			}
			if h == orig {
				continue
			}
			m := append([]byte(nil), body...)
			binary.BigEndian.PutUint32(m[k:], h)
			out = append(out, c20Mut{kind: fmt.Sprintf("win@%d=%s", k, c20HostileNames[hi]), body: m})
		}
	}
	// other reply types (valid bodies) with the same id
	subs := []vfPkt{
		{Type: rfStatus, ID: valid.ID, Code: rfOK}, {Type: rfStatus, ID: valid.ID, Code: rfEOF, Msg: "EOF"}, {Type: rfStatus, ID: valid.ID, Code: rfFailure, Msg: "boom"},
		{Type: rfStatus, ID: valid.ID, Code: 0xFFFFFFFF, Msg: "?"},
		// (every status code of the protocol, and one beyond a byte: some are given a meaning of their own by callers)
		{Type: rfStatus, ID: valid.ID, Code: rfNoSuchFile, Msg: "no"}, {Type: rfStatus, ID: valid.ID, Code: rfPermDenied, Msg: "no"}, {Type: rfStatus, ID: valid.ID, Code: rfBadMessage, Msg: "bad"},
		{Type: rfStatus, ID: valid.ID, Code: rfNoConn, Msg: "nc"}, {Type: rfStatus, ID: valid.ID, Code: rfConnLost, Msg: "cl"}, {Type: rfStatus, ID: valid.ID, Code: rfUnsupported, Msg: "unsupported"}, {Type: rfStatus, ID: valid.ID, Code: 256, Msg: "256"},
		{Type: rfHandle, ID: valid.ID, Handle: "zz"}, {Type: rfHandle, ID: valid.ID, Handle: ""},
		// well-formed handles longer than the 256 bytes the draft allows (every later request has to carry them)
		{Type: rfHandle, ID: valid.ID, Handle: strings.Repeat("h", 257)}, {Type: rfHandle, ID: valid.ID, Handle: strings.Repeat("H", 4096)},
		{Type: rfAttrs, ID: valid.ID, Attrs: vfAttrs{Flags: 0xF, Size: 64 << 20, Perm: 0o100644}}, {Type: rfAttrs, ID: valid.ID, Attrs: vfAttrs{Flags: 0xF, Size: 3 << 30, Perm: 0o100644}},
		// (sizes of a few hundred packets, where a worker count derived from the size is neither tiny nor absurd)
		{Type: rfAttrs, ID: valid.ID, Attrs: vfAttrs{Flags: 0xF, Size: 900000, Perm: 0o100644}}, {Type: rfAttrs, ID: valid.ID, Attrs: vfAttrs{Flags: 0xF, Size: 300 * 32768, Perm: 0o100644}},
		{Type: rfData, ID: valid.ID, Data: []byte("0123456789")}, {Type: rfData, ID: valid.ID, Data: nil},
		{Type: rfData, ID: valid.ID, Data: make([]byte, 5000)}, {Type: rfData, ID: valid.ID, Data: make([]byte, 200000)},
		{Type: rfName, ID: valid.ID}, {Type: rfName, ID: valid.ID, Names: []vfName{{Name: "n", Long: "l"}, {Name: "m", Long: "k"}}},
		{Type: rfAttrs, ID: valid.ID, Attrs: vfAttrs{}}, {Type: rfAttrs, ID: valid.ID, Attrs: vfAttrs{Flags: 0xF, Size: 1 << 62, Perm: 0o100644}},
		{Type: rfAttrs, ID: valid.ID, Attrs: vfAttrs{Flags: 0xF, Size: 5000, Perm: 0o40755}},
		{Type: rfAttrs, ID: valid.ID, Attrs: vfAttrs{Flags: 0xF, Size: 1<<64 - 1, Perm: 0o100644}}, {Type: rfAttrs, ID: valid.ID, Attrs: vfAttrs{Flags: 0xF, Size: 1<<64 - 2, Perm: 0o100644}},
		{Type: rfAttrs, ID: valid.ID, Attrs: vfAttrs{Flags: 0xF, Size: 1 << 63, Perm: 0o100644}}, {Type: rfAttrs, ID: valid.ID, Attrs: vfAttrs{Flags: 0x1, Size: 1<<63 - 1}},
		{Type: rfExtendedReply, ID: valid.ID, ExtData: []byte{1, 2, 3}}, {Type: rfExtendedReply, ID: valid.ID},
		{Type: rfVersion, Version: 3},
	}
	// valid but unusual: many extended attributes (nothing limits their number but the frame)
	manyExt := func(n int) [][2]string {
		var e [][2]string
		for i := 0; i < n; i++ {
			e = append(e, [2]string{fmt.Sprintf("user.k%d", i), fmt.Sprint(i)})
		}
		return e
	}
	subs = append(subs,
		vfPkt{Type: rfAttrs, ID: valid.ID, Attrs: vfAttrs{Flags: 0x8000000F, Size: c20FileSize, Perm: 0o100644, Ext: manyExt(17)}},
		vfPkt{Type: rfAttrs, ID: valid.ID, Attrs: vfAttrs{Flags: 0x8000000F, Size: c20FileSize, Perm: 0o100644, Ext: manyExt(300)}},
		vfPkt{Type: rfName, ID: valid.ID, Names: []vfName{{Name: "n", Long: "l", Attrs: vfAttrs{Flags: 0x80000001, Size: 1, Ext: manyExt(40)}}, {Name: "m", Long: "k"}}})
	for i, s := range subs {
		out = append(out, c20Mut{kind: fmt.Sprintf("type-sub-%s-%d", rfTypeName(s.Type), i), body: s.Body()})
	}
	for _, t := range []byte{0, 1, 3, 100, 106, 199, 200, 255} {
		m := append([]byte(nil), body...)
		m[0] = t
		out = append(out, c20Mut{kind: fmt.Sprintf("type-byte-%d", t), body: m})
	}
	// wrong id
	for _, d := range []uint32{1, 0x80000000} {
		w := valid
		w.ID += d
		out = append(out, c20Mut{kind: "wrong-id", body: w.Body()})
	}
	// the largest frame a peer may send, carrying counts that are absurd for it although they are not absurd
	// as numbers: a bound that is loose by a constant factor only shows on big inputs
	for _, cnt := range []uint32{2000000, 260000, 40000} {
		big := []byte{rfAttrs}
		big = binary.BigEndian.AppendUint32(big, valid.ID)
		big = binary.BigEndian.AppendUint32(big, 0x80000000)
		big = binary.BigEndian.AppendUint32(big, cnt)
		big = append(big, make([]byte, 261000)...)
		out = append(out, c20Mut{kind: "max-frame-count-lie", body: big})
		nm := []byte{rfName}
		nm = binary.BigEndian.AppendUint32(nm, valid.ID)
		nm = binary.BigEndian.AppendUint32(nm, cnt)
		nm = append(nm, make([]byte, 261000)...)
		out = append(out, c20Mut{kind: "max-frame-count-lie", body: nm})
	}
	// a length prefix that promises far more than a frame may hold (and than is ever sent)
	for _, l := range []uint32{262145, 1 << 20, 1 << 28, 1 << 30, 1<<31 - 1, 1<<32 - 1} {
		lie := binary.BigEndian.AppendUint32(nil, l)
		lie = append(lie, body...)
		out = append(out, c20Mut{kind: "frame-length-lie", body: lie, raw: true})
	}
	// random bodies
	for i := 0; i < 12; i++ {
		m := append([]byte{body[0]}, r.Bytes(r.Intn(80))...)
		if i%2 == 0 && len(m) >= 5 {
			binary.BigEndian.PutUint32(m[1:], valid.ID)
		}
		out = append(out, c20Mut{kind: "random", body: m})
	}
	return out
}

var c20HostileNames = []string{"0", "1", "n-1", "n+1", "2^20", "2^31-1", "2^32-1", "2^29", "2^29+1", "2^30", "2^28"}

func c08HostileVals(n uint32) []uint32 {
	return []uint32{0, 1, n - 1, n + 1, 1 << 20, 1<<31 - 1, 1<<32 - 1, 1 << 29, 1<<29 + 1, 1 << 30, 1 << 28}
}

// c20Once runs op against a fresh peer; the reply to the target-th request (0-based) is replaced by mut (nil = none).
// It returns the valid reply of every request seen (for planning) and observations.
type c20Obs struct {
	valid    []vfPkt
	panicked any
	stack    string
	stuck    string
	alloc    uint64
	received int64
	follow   string
	leaks    []string
	maxGo    int // most goroutines seen (sampled whenever the peer receives a request) above the number before the operation
}

// c20VersionOverride, if set, is the VERSION frame the scripted peer answers INIT with (units run one after the other)
var c20VersionOverride []byte

func c20Once(u *vfUnit, op c20Op, target int, mut []byte, rawFrame bool) c20Obs {
	var obs c20Obs
	var mu sync.Mutex
	goBefore := runtime.NumGoroutine()
	seen := 0
	readdirCalls := 0
	muted := false
	peer := &vfPeer{
		VersionFrame: vfPkt{Type: rfVersion, Version: 3, Exts: [][2]string{{"fsync@openssh.com", "1"}, {"posix-rename@openssh.com", "1"}, {"hardlink@openssh.com", "1"}, {"statvfs@openssh.com", "2"}}}.Frame(),
		Handler: func(req vfPkt, raw []byte) []byte {
			mu.Lock()
			defer mu.Unlock()
			if g := runtime.NumGoroutine() - goBefore; g > obs.maxGo {
				obs.maxGo = g
			}
			v := c20Valid(req, &readdirCalls)
			idx := seen
			seen++
			if len(obs.valid) < 64 {
				obs.valid = append(obs.valid, v)
			}
			if idx == target && mut != nil && !muted {
				muted = true
				if rawFrame {
					return mut
				}
				return vfFrame(mut)
			}
			return v.Frame()
		},
	}
	if c20VersionOverride != nil {
		peer.VersionFrame = c20VersionOverride
	}
	base := vfGoBaseline()
	opts := append([]ClientOption{MaxPacketUnchecked(1000), MaxConcurrentRequestsPerFile(4)}, op.opts...)
	c, p, ctl, ce, err := vfPeerClient(peer, vfPipeOpts{}, opts...)
	if err != nil {
		obs.follow = "connect failed: " + err.Error()
		return obs
	}
	before := vfAllocs()
	done := vfGo(func() {
		defer func() {
			if r := recover(); r != nil {
				obs.panicked = r
				obs.stack = vfStack()
			}
		}()
		op.run(c)
	})
	if w, dump := vfAwait(done, 120*time.Second); w != vfDone {
		obs.stuck = fmt.Sprintf("%v\n%s", w, vfTrim(dump, 3000))
		ce.Close()
		p.Stop()
		return obs
	}
	obs.alloc = vfAllocs() - before
	obs.received = ctl.Delivered(vfS2C)
	// follow-up: the client is still usable, or has failed cleanly
	fdone := vfGo(func() {
		defer func() {
			if r := recover(); r != nil {
				obs.follow = fmt.Sprintf("follow-up Stat panicked: %v", r)
			}
		}()
		_, err := c.Stat("/file")
		_ = err // either outcome is fine
	})
	if w, dump := vfAwait(fdone, 120*time.Second); w != vfDone {
		obs.follow = fmt.Sprintf("follow-up Stat after the operation does not return (%v)\n%s", w, vfTrim(dump, 2500))
		ce.Close()
		p.Stop()
		return obs
	}
	// close: the peer goes away first (as the repository's tests do), then Close must return
	p.Stop()
	cdone := vfGo(func() { c.Close() })
	if w, dump := vfAwait(cdone, 120*time.Second); w != vfDone {
		obs.follow = fmt.Sprintf("Client.Close does not return (%v)\n%s", w, vfTrim(dump, 2500))
		ce.Close()
		return obs
	}
	ce.Close()
	obs.leaks = base.Leaks()
	return obs
}

func c20Run(u *vfUnit) {
	ops := c20Ops()
	op := ops[u.Index%len(ops)]
	u.SetAdd("operations", op.name)
	// dry run: which requests does the operation issue, and what are the valid replies?
	// Package-level state must not leak from one session into the next: before anything else this process
	// runs one ordinary session with the largest packet size a caller can ask for.
	if pre := c20Once(u, c20Op{"prelude-Stat", []ClientOption{MaxPacketUnchecked(1 << 30)}, func(c *Client) error { _, err := c.Stat("/file"); return err }}, -1, nil, false); pre.panicked != nil || pre.stuck != "" {
		u.Violation("valid-replies:prelude", fmt.Sprintf("prelude session: panic=%v stuck=%q", pre.panicked, vfTrim(pre.stuck, 300)), nil)
		return
	}
	dry := c20Once(u, op, -1, nil, false)
	if dry.panicked != nil || dry.stuck != "" || dry.follow != "" {
		u.Violation("valid-replies:"+op.name, fmt.Sprintf("%s with all-valid replies: panic=%v stuck=%q follow=%q", op.name, dry.panicked, vfTrim(dry.stuck, 300), dry.follow), nil)
		return
	}
	// the handshake is the peer's too: every extension the client consults, advertised with every kind of data
	// (empty, other revisions, not a number, long), all other replies valid
	hsCase := 100000
	for _, name := range []string{"fsync@openssh.com", "posix-rename@openssh.com", "hardlink@openssh.com", "statvfs@openssh.com"} {
		for di, data := range []string{"", "0", "2", "x", "\x00", "11", strings.Repeat("9", 1000)} {
			hsCase++
			exts := [][2]string{{"fsync@openssh.com", "1"}, {"posix-rename@openssh.com", "1"}, {"hardlink@openssh.com", "1"}, {"statvfs@openssh.com", "2"}}
			for i := range exts {
				if exts[i][0] == name {
					exts[i][1] = data
				}
			}
			if !u.Case(hsCase, fmt.Sprintf("%s:VERSION:ext-data", op.name), "%s with VERSION advertising %s=%q", op.name, name, vfTrim(data, 20)) {
				continue
			}
			u.Eval(fmt.Sprintf("%s/handshake/%s/%d", op.name, name, di))
			u.Count("handshake_data_variants", 1)
			c20VersionOverride = vfPkt{Type: rfVersion, Version: 3, Exts: exts}.Frame()
			obs := c20Once(u, op, -1, nil, false)
			c20VersionOverride = nil
			where := fmt.Sprintf("%s after a VERSION reply advertising %s with data %q", op.name, name, vfTrim(data, 20))
			w := map[string]any{"operation": op.name, "extension": name, "data": vfTrim(data, 40)}
			switch {
			case obs.panicked != nil:
				u.Violation(fmt.Sprintf("panic:%s:VERSION:ext-data", op.name), fmt.Sprintf("%s: the call panicked: %v\n%s", where, obs.panicked, vfTrim(obs.stack, 1500)), w)
			case obs.stuck != "":
				u.Violation(fmt.Sprintf("hang:%s:VERSION:ext-data", op.name), fmt.Sprintf("%s: the call does not return: %s", where, obs.stuck), w)
			case obs.follow != "" && !strings.HasPrefix(obs.follow, "connect failed"):
				u.Violation(fmt.Sprintf("aftermath:%s:VERSION:ext-data", op.name), where+": "+obs.follow, w)
			case len(obs.leaks) > 0:
				u.Violation(fmt.Sprintf("goroutine-leak:%s:VERSION:ext-data", op.name), fmt.Sprintf("%s: %d package goroutine(s) survive Close", where, len(obs.leaks)), w)
			}
		}
	}
	nreq := min(len(dry.valid), 8)
	caseNo := 0
	for k := 0; k < nreq; k++ {
		valid := dry.valid[k]
		muts := c20Mutations(u, valid)
		for _, m := range muts {
			caseNo++
			mkind := m.kind
			if i := strings.IndexAny(mkind, "@"); i > 0 {
				mkind = mkind[:i]
			}
			if !u.Case(caseNo, fmt.Sprintf("%s:%s:%s", op.name, rfTypeName(valid.Type), mkind), "%s request#%d valid=%s mutation=%s body=%x", op.name, k, valid, m.kind, vfTrimB(m.body, 400)) {
				continue
			}
			u.Eval(fmt.Sprintf("%s/%d/%s/%s", op.name, k, rfTypeName(valid.Type), mkind))
			u.Count("mutated_replies", 1)
			u.SetAdd("mutation_kinds", mkind)
			obs := c20Once(u, op, k, m.body, m.raw)
			w := map[string]any{"operation": op.name, "request_index": k, "valid_reply": valid.String(), "mutation": m.kind, "reply_body_hex": fmt.Sprintf("%x", vfTrimB(m.body, 400))}
			where := fmt.Sprintf("%s, reply to request #%d (valid: %s) replaced by %s", op.name, k, valid, m.kind)
			if obs.panicked != nil {
				u.Violation(fmt.Sprintf("panic:%s:%s:%s", op.name, rfTypeName(valid.Type), mkind), fmt.Sprintf("%s: the call panicked: %v\n%s", where, obs.panicked, vfTrim(obs.stack, 1500)), w)
				continue
			}
			if obs.stuck != "" {
				u.Violation(fmt.Sprintf("hang:%s:%s:%s", op.name, rfTypeName(valid.Type), mkind), fmt.Sprintf("%s: the call does not return: %s", where, obs.stuck), w)
				continue
			}
			if bound := uint64(64*obs.received) + 3<<20; obs.alloc > bound {
				u.Violation(fmt.Sprintf("alloc:%s:%s:%s", op.name, rfTypeName(valid.Type), mkind), fmt.Sprintf("%s: %d bytes allocated for %d bytes received (bound %d)", where, obs.alloc, obs.received, bound), w)
			}
			u.Max("alloc_bytes_per_op", int64(obs.alloc))
			u.Max("goroutines_per_op", int64(obs.maxGo))
			if obs.maxGo > 100 {
				// (the client is configured with 4 requests per file; what a reply claims does not change that)
				u.Violation(fmt.Sprintf("goroutines:%s:%s:%s", op.name, rfTypeName(valid.Type), mkind), fmt.Sprintf("%s: %d goroutines were running for a client limited to 4 concurrent requests per file", where, obs.maxGo), w)
			}
			if obs.follow != "" {
				u.Violation(fmt.Sprintf("aftermath:%s:%s:%s", op.name, rfTypeName(valid.Type), mkind), where+": "+obs.follow, w)
			}
			if len(obs.leaks) > 0 {
				u.Violation(fmt.Sprintf("goroutine-leak:%s:%s:%s", op.name, rfTypeName(valid.Type), mkind), fmt.Sprintf("%s: %d package goroutine(s) survive Close:\n%s", where, len(obs.leaks), vfTrim(strings.Join(obs.leaks, "\n\n"), 2000)), w)
			}
		}
		if k == 0 {
			u.Sample(map[string]any{"operation": op.name, "requests_issued": len(dry.valid), "first_valid_reply": valid.String(), "mutations_of_it": len(muts)})
		}
	}
}
