//go:build verif

package sftp

// C07 — No byte stream can crash, wedge or trick a server.
//
// Self-differential fault enumeration. A base session (well-formed requests) is
// first run sequentially on fresh state, recording every reply and a state
// snapshot after every request. Then, for each mutation of request j, a fresh
// server on identical state is fed requests 1..j-1 (one at a time, replies must
// equal the reference), then the mutated bytes, then a well-formed canary request,
// then EOF. Oracles: the process survives (journal), Serve returns (stuck
// detector), no goroutine / fd / handler-object leak, no reply beyond those of
// the well-formed prefix, and the final state equals the reference snapshot taken
// before request j.

import (
	"bytes"
	"encoding/binary"
	"fmt"
	"os"
	"path/filepath"
	rtdebug "runtime/debug"
	"strings"
	"syscall"
	"testing"
	"time"
)

func TestVerifC07(t *testing.T) {
	vfMain(t, vfCheck{
		ID: "C07", Level: "fault_enumeration",
		Rule:        "8 base sessions x {Server, RequestServer} x allocator {off,on} x transport {close-both, keep-input-after-Close}; mutations of request j: stream EOF at a byte offset inside it (quick: first/last 2 offsets + seeded 15%; thorough: every offset), well-framed truncation of the body at every offset the reference decoder rejects, every 4-byte window that is a string-length field replaced by {n+1, 2^20, 2^31-1, 2^32-1}, zero-length and oversized frames, every unknown/response type byte (one request per session), plus 'ambiguous' mutations (garbage inside the frame, random byte flips) judged by the robustness oracles only. A class is (session, config, request index, mutation kind).",
		Assumptions: []string{"a mutation is 'definitely malformed' only if the independent reference decoder rejects it (or it is a framing violation / non-request type)", "sessions are sequential (determinate), so the two runs are comparable", "race detector on"},
		Units:       func(tier vfTier, seed uint64) int { return 8*4*2 + 16 + 4 + 4 },
		Shards: func(tier vfTier) int {
			if tier == vfThorough {
				return 16
			}
			return 12
		},
		Floors: map[string]int64{"mutated_streams": 1500, "definitely_malformed": 1000, "mutation_kinds": 7, "sessions": 8, "bursts_ending_with_requests_in_flight": 50},
		Run:    c07Run,
	})
}

type c07Env struct {
	kind     vfKind
	alloc    bool
	keepRead bool
	debug    bool   // os-backed: the server writes diagnostics to a stream (WithDebug)
	dir      string // os-backed: the served directory (same path for every run)
	store    *vfStore
	canary   string
}

func (e *c07Env) root() string {
	if e.kind == vfOS {
		return e.dir
	}
	return "/"
}

func (e *c07Env) reset() {
	when := time.Unix(1600000000, 0)
	if e.kind == vfOS {
		vfChmodAll(e.dir)
		os.RemoveAll(e.dir)
		os.MkdirAll(filepath.Join(e.dir, "d"), 0o755)
		os.WriteFile(filepath.Join(e.dir, "a"), vfPattern(1, 0, 2000), 0o644)
		os.WriteFile(filepath.Join(e.dir, "b"), vfPattern(2, 0, 10), 0o644)
		os.WriteFile(filepath.Join(e.dir, "d", "x"), vfPattern(3, 0, 77), 0o644)
		os.Symlink("a", filepath.Join(e.dir, "la"))
		vfFixTimes("", e.dir, when)
	} else {
		e.store = vfNewStore()
		e.store.Mkdir("/d")
		e.store.Put("/a", vfPattern(1, 0, 2000))
		e.store.Put("/b", vfPattern(2, 0, 10))
		e.store.Put("/d/x", vfPattern(3, 0, 77))
	}
}

// state renders the served state: tree snapshot (without times) or store + handler call log.
func (e *c07Env) state() string {
	if e.kind == vfOS {
		t := vfSnapshot(e.dir, vfSnapOpts{})
		var keys []string
		for k := range t {
			keys = append(keys, k)
		}
		sortStrings(keys)
		var b strings.Builder
		for _, k := range keys {
			fmt.Fprintf(&b, "%s %+v\n", k, t[k])
		}
		return b.String()
	}
	var b strings.Builder
	b.WriteString(e.store.Snapshot())
	for _, c := range e.store.Calls() {
		b.WriteString(c.String() + "\n")
	}
	return b.String()
}

func (e *c07Env) p(rel string) string { return filepath.Join(e.root(), rel) }

// c07Sessions: base sessions as request lists (handles are predictable "1","2",…).
func c07Sessions(e *c07Env) [][]vfPkt {
	id := uint32(0)
	n := func() uint32 { id++; return id * 3 }
	return [][]vfPkt{
		{ // 0: create, write, read, fstat, close
			{Type: rfOpen, ID: n(), Path: e.p("new"), Pflags: rfRead_ | rfWrite_ | rfCreat_, Attrs: vfAttrs{Flags: rfAttrPerm, Perm: 0o600}},
			{Type: rfWrite, ID: n(), Handle: "1", Off: 0, Data: []byte("hello world, hello sftp")},
			{Type: rfWrite, ID: n(), Handle: "1", Off: 23, Data: vfPattern(5, 0, 40)},
			{Type: rfRead, ID: n(), Handle: "1", Off: 6, Len: 20},
			{Type: rfFstat, ID: n(), Handle: "1"},
			{Type: rfClose, ID: n(), Handle: "1"},
		},
		{ // 1: directories
			{Type: rfMkdir, ID: n(), Path: e.p("nd"), Attrs: vfAttrs{Flags: rfAttrPerm | rfAttrTime, Perm: 0o40700, Atime: 5, Mtime: 6}},
			{Type: rfOpendir, ID: n(), Path: e.p("d")},
			{Type: rfReaddir, ID: n(), Handle: "1"},
			{Type: rfReaddir, ID: n(), Handle: "1"},
			{Type: rfClose, ID: n(), Handle: "1"},
			{Type: rfRmdir, ID: n(), Path: e.p("nd")},
			// OPENDIR of something that is not a directory, OPEN of a directory for writing: refused, nothing may stay open
			{Type: rfOpendir, ID: n(), Path: e.p("a")},
			{Type: rfOpen, ID: n(), Path: e.p("d"), Pflags: rfWrite_},
			{Type: rfOpendir, ID: n(), Path: e.p("b")},
		},
		{ // 2: metadata and namespace
			{Type: rfSetstat, ID: n(), Path: e.p("b"), Attrs: vfAttrs{Flags: rfAttrSize | rfAttrPerm, Size: 4, Perm: 0o640}},
			{Type: rfStat, ID: n(), Path: e.p("b")},
			{Type: rfLstat, ID: n(), Path: e.p("d/x")},
			{Type: rfRename, ID: n(), Path: e.p("b"), Path2: e.p("b2")},
			{Type: rfRemove, ID: n(), Path: e.p("d/x")},
		},
		{ // 3: links and paths
			{Type: rfSymlink, ID: n(), Path: e.p("a"), Path2: e.p("lnk")},
			{Type: rfReadlink, ID: n(), Path: e.p("lnk")},
			{Type: rfRealpath, ID: n(), Path: e.p("d/../a")},
			{Type: rfStat, ID: n(), Path: e.p("lnk")},
		},
		{ // 4: extensions (an unknown one first: what it leaves behind in the session must not soften the fate of a later malformed packet)
			{Type: rfExtended, ID: n(), Ext: "nonexistent@example.com", ExtData: []byte{0, 0, 0, 1, 'x'}},
			{Type: rfExtended, ID: n(), Ext: "statvfs@openssh.com", Path: e.root()},
			{Type: rfExtended, ID: n(), Ext: "posix-rename@openssh.com", Path: e.p("a"), Path2: e.p("b")},
			{Type: rfExtended, ID: n(), Ext: "hardlink@openssh.com", Path: e.p("b"), Path2: e.p("hl")},
			{Type: rfMkdir, ID: n(), Path: e.p("after-extensions"), Attrs: vfAttrs{Flags: rfAttrPerm, Perm: 0o40755}},
			{Type: rfExtended, ID: n(), Ext: "nonexistent@example.com", ExtData: []byte{0, 0, 0, 1, 'x'}},
		},
		{ // 5: read an existing file
			{Type: rfOpen, ID: n(), Path: e.p("a"), Pflags: rfRead_},
			{Type: rfRead, ID: n(), Handle: "1", Off: 0, Len: 1000},
			{Type: rfRead, ID: n(), Handle: "1", Off: 1000, Len: 1000},
			{Type: rfRead, ID: n(), Handle: "1", Off: 2000, Len: 1000},
			{Type: rfClose, ID: n(), Handle: "1"},
		},
		{ // 6: truncate, write, fsetstat
			{Type: rfOpen, ID: n(), Path: e.p("a"), Pflags: rfWrite_ | rfTrunc_, Attrs: vfAttrs{Flags: rfAttrSize | rfAttrTime, Size: 0, Atime: 7, Mtime: 8}},
			{Type: rfWrite, ID: n(), Handle: "1", Off: 0, Data: vfPattern(7, 0, 300)},
			{Type: rfFsetstat, ID: n(), Handle: "1", Attrs: vfAttrs{Flags: rfAttrSize, Size: 100}},
			{Type: rfClose, ID: n(), Handle: "1"},
			{Type: rfClose, ID: n(), Handle: "1"},
		},
		{ // 7: handles left open at the end (the end-of-Serve sweep must release them)
			{Type: rfOpen, ID: n(), Path: e.p("a"), Pflags: rfRead_},
			{Type: rfOpen, ID: n(), Path: e.p("b"), Pflags: rfRead_ | rfWrite_, Attrs: vfAttrs{Flags: rfAttrUIDGID, UID: 0, GID: 0}},
			{Type: rfOpendir, ID: n(), Path: e.p("d")},
			{Type: rfOpen, ID: n(), Path: e.p("w2"), Pflags: rfWrite_ | rfCreat_, Attrs: vfAttrs{Flags: rfAttrExt, Ext: [][2]string{{"k@example.com", "v"}, {"k2@example.com", "vv"}}}},
			{Type: rfWrite, ID: n(), Handle: "4", Off: 0, Data: []byte("left open")},
			{Type: rfRead, ID: n(), Handle: "1", Off: 0, Len: 10},
		},
	}
}

type c07Mut struct {
	j       int    // index of the mutated request
	kind    string // mutation kind
	bytes   []byte // replaces request j on the wire
	eof     bool   // the stream ends right after bytes (no canary)
	definit bool   // definitely malformed: full oracle
	desc    string
}

// c07StrFields returns the offsets (within body) of the uint32 length fields of the strings of a request body.
func c07StrFields(p vfPkt) []int {
	var offs []int
	off := 1 + 4 // type + id
	add := func(s int) {
		offs = append(offs, off)
		off += 4 + s
	}
	switch p.Type {
	case rfOpen:
		add(len(p.Path))
	case rfClose, rfFstat, rfReaddir, rfFsetstat:
		add(len(p.Handle))
	case rfRead:
		add(len(p.Handle))
	case rfWrite:
		add(len(p.Handle))
		off += 8
		add(len(p.Data))
	case rfLstat, rfStat, rfOpendir, rfRemove, rfRmdir, rfRealpath, rfReadlink, rfSetstat, rfMkdir:
		add(len(p.Path))
	case rfRename, rfSymlink:
		add(len(p.Path))
		add(len(p.Path2))
	case rfExtended:
		add(len(p.Ext))
		switch p.Ext {
		case "statvfs@openssh.com":
			add(len(p.Path))
		case "posix-rename@openssh.com", "hardlink@openssh.com":
			add(len(p.Path))
			add(len(p.Path2))
		}
	}
	return offs
}

func c07Mutations(u *vfUnit, sess []vfPkt, typeSweepAt int) []c07Mut {
	r := u.Rng
	var out []c07Mut
	for j, p := range sess {
		body := p.Body()
		frame := vfFrame(body)
		// (a) stream EOF inside the frame
		for k := 1; k < len(frame); k++ {
			if u.Tier == vfQuick && !(k <= 2 || k >= len(frame)-2 || k == 4 || k == 5 || r.Intn(100) < 15) {
				continue
			}
			out = append(out, c07Mut{j: j, kind: "eof-mid-frame", bytes: frame[:k], eof: true, definit: true, desc: fmt.Sprintf("EOF after %d of %d bytes of %s", k, len(frame), p)})
		}
		// (b) well-framed truncation of the body
		for k := 1; k < len(body); k++ {
			if _, err := vfParse(body[:k], true); err == nil {
				continue // still a well-formed packet (e.g. optional trailing fields): not malformed
			}
			if u.Tier == vfQuick && !(k <= 6 || k >= len(body)-3 || r.Intn(100) < 20) {
				continue
			}
			out = append(out, c07Mut{j: j, kind: "truncated-body", bytes: vfFrame(body[:k]), definit: true, desc: fmt.Sprintf("%s truncated to %d of %d body bytes (re-framed)", p, k, len(body))})
		}
		// (c) string length fields overrunning the frame
		for _, off := range c07StrFields(p) {
			orig := binary.BigEndian.Uint32(body[off:])
			for _, v := range []uint32{uint32(len(body)) - uint32(off) - 4 + 1, orig + uint32(len(body)), 1 << 20, 1<<31 - 1, 1<<32 - 1} {
				m := append([]byte(nil), body...)
				binary.BigEndian.PutUint32(m[off:], v)
				if _, err := vfParse(m, true); err == nil {
					continue
				}
				out = append(out, c07Mut{j: j, kind: "length-overrun", bytes: vfFrame(m), definit: true, desc: fmt.Sprintf("%s with the length field at body offset %d set to %d", p, off, v)})
			}
		}
		// (d) framing violations
		out = append(out, c07Mut{j: j, kind: "zero-length-frame", bytes: []byte{0, 0, 0, 0}, definit: true, desc: fmt.Sprintf("zero-length frame in place of %s", p)})
		big := make([]byte, 4+len(body))
		binary.BigEndian.PutUint32(big, 256*1024+1)
		copy(big[4:], body)
		out = append(out, c07Mut{j: j, kind: "oversized-frame", bytes: big, definit: true, desc: fmt.Sprintf("frame of declared length 256KiB+1 in place of %s", p)})
		// (e) type bytes that are not requests
		if j == typeSweepAt {
			for t := 0; t < 256; t++ {
				if vfIsRequest(byte(t)) {
					continue
				}
				if u.Tier == vfQuick && !(t == 0 || t == 2 || t == 21 || t == 99 || (t >= 100 && t <= 106) || t == 199 || t == 201 || t == 255 || r.Intn(100) < 8) {
					continue
				}
				m := append([]byte(nil), body...)
				m[0] = byte(t)
				out = append(out, c07Mut{j: j, kind: "non-request-type", bytes: vfFrame(m), definit: true, desc: fmt.Sprintf("type byte %d in place of %s", t, p)})
			}
		}
		// ambiguous: garbage inside the frame, byte flips
		g := append(append([]byte(nil), body...), r.Bytes(1+r.Intn(20))...)
		out = append(out, c07Mut{j: j, kind: "garbage-in-frame", bytes: vfFrame(g), desc: fmt.Sprintf("%s with trailing garbage inside the frame", p)})
		for i := 0; i < 3; i++ {
			m := append([]byte(nil), body...)
			m[1+r.Intn(len(m)-1)] ^= byte(1 + r.Intn(255))
			out = append(out, c07Mut{j: j, kind: "byte-flip", bytes: vfFrame(m), desc: fmt.Sprintf("%s with one byte flipped", p)})
		}
	}
	return out
}

type c07Ref struct {
	replies [][]byte // reply body to request i
	states  []string // state before request i (states[len] = final)
}

func c07Connect(e *c07Env) (*vfRawSession, error) {
	// no garbage collection between here and the descriptor check in c07After: a file the server forgot to
	// close must not be rescued by the finalizer of its unreachable *os.File
	if e.kind == vfOS {
		rtdebug.SetGCPercent(-1)
	}
	cfg := vfSrvCfg{Kind: e.kind, Alloc: e.alloc}
	if e.kind == vfRS {
		cfg.H = e.store.Handlers(vfHandlerOpt{OpenFile: true, CmdAll: true, ListAll: true})
	} else if e.debug {
		cfg.Debug = &vfSink{} // a server with a diagnostics stream (WithDebug)
	}
	return vfRawConnect(cfg, vfPipeOpts{SrvKeepRead: e.keepRead}, true)
}

// c07After checks the universal post-conditions after Serve returned.
func c07After(u *vfUnit, e *c07Env, base vfGoSet, label string, w map[string]any) {
	if leaks := base.Leaks(); len(leaks) > 0 {
		u.Violation("goroutine-leak:"+e.kind.String(), fmt.Sprintf("%s: %d goroutine(s) of the package survive Serve:\n%s", label, len(leaks), vfTrim(strings.Join(leaks, "\n\n"), 2500)), w)
	}
	if e.kind == vfOS {
		if fds := vfFDsUnder(e.dir); len(fds) > 0 {
			u.Violation("fd-leak:Server", fmt.Sprintf("%s: files still open after Serve returned: %v", label, fds), w)
		}
		rtdebug.SetGCPercent(100)
	} else {
		for _, o := range e.store.Objs() {
			if o.kind == "stat" {
				continue
			}
			if n := o.closes.Load(); n != 1 {
				u.Violation(fmt.Sprintf("handler-object-closed-%d-times", n), fmt.Sprintf("%s: handler object (%s %s) closed %d times by the end of Serve", label, o.kind, o.path, n), w)
			}
		}
	}
}

func c07Reference(u *vfUnit, e *c07Env, sess []vfPkt, label string) (*c07Ref, bool) {
	e.reset()
	base := vfGoBaseline()
	rs, err := c07Connect(e)
	if err != nil {
		u.Inconclusive("connect: %v", err)
		return nil, false
	}
	ref := &c07Ref{}
	for _, p := range sess {
		ref.states = append(ref.states, e.state())
		n := rs.R.Count()
		rs.R.SendPkts(p)
		if w, dump := rs.R.WaitCount(n+1, 120*time.Second); w != vfDone {
			u.Violation("reference-run-no-reply:"+e.kind.String(), fmt.Sprintf("%s: no reply to well-formed %s (%v)\n%s", label, p, w, vfTrim(dump, 2000)), nil)
			rs.End(60 * time.Second)
			return nil, false
		}
		all := rs.R.All()
		if len(all) <= n {
			u.Violation("reference-run-ended:"+e.kind.String(), fmt.Sprintf("%s: stream ended instead of a reply to %s", label, p), nil)
			return nil, false
		}
		ref.replies = append(ref.replies, all[n])
	}
	ref.states = append(ref.states, e.state())
	if msg := rs.End(120 * time.Second); msg != "" {
		u.Violation("serve-end-clean:"+e.kind.String(), label+" (well-formed session): "+msg, nil)
		return nil, false
	}
	c07After(u, e, base, label+" (well-formed session)", nil)
	return ref, true
}

// c07Burst: many pipelined reads/writes are still in flight when the stream ends (EOF) or turns
// malformed; Serve must still return, release everything, and every well-formed write must have been applied.
func c07Burst(u *vfUnit, idx int) {
	cfgi := idx % 8
	tail := []string{"eof", "garbage"}[idx/8]
	e := &c07Env{kind: vfKind(cfgi % 2), alloc: (cfgi/2)%2 == 1, keepRead: cfgi/4 == 1}
	if e.kind == vfOS {
		e.dir = filepath.Join(u.TempDir(), "srv")
	}
	for round := 0; round < 6; round++ {
		nrw := []int{9, 17, 40, 64, 100, 33}[round]
		label := fmt.Sprintf("burst/%v/alloc=%v/keepRead=%v/n=%d/tail=%s", e.kind, e.alloc, e.keepRead, nrw, tail)
		if !u.Case(round, fmt.Sprintf("%s:burst:%s", e.kind, tail), "%s", label) {
			continue
		}
		u.Eval(label)
		u.Count("mutated_streams", 1)
		u.Count("bursts_ending_with_requests_in_flight", 1)
		u.SetAdd("mutation_kinds", "burst-then-"+tail)
		e.reset()
		e.debug = round%2 == 1
		base := vfGoBaseline()
		rs, err := c07Connect(e)
		if err != nil {
			u.Inconclusive("connect: %v", err)
			return
		}
		r, err := rs.R.Phase(120*time.Second, vfPkt{Type: rfOpen, ID: 1, Path: e.p("burst"), Pflags: rfRead_ | rfWrite_ | rfCreat_})
		if err != nil || len(r) != 1 || r[0].Type != rfHandle {
			u.Violation("burst-open:"+e.kind.String(), fmt.Sprintf("%s: %v %v", label, r, err), nil)
			rs.End(60 * time.Second)
			continue
		}
		var stream, want []byte
		const chunk = 500
		for i := 0; i < nrw; i++ {
			d := vfPattern(uint64(40+round), int64(i*chunk), chunk)
			want = append(want, d...)
			stream = append(stream, vfPkt{Type: rfWrite, ID: uint32(10 + i), Handle: r[0].Handle, Off: uint64(i * chunk), Data: d}.Frame()...)
			if i%5 == 4 {
				stream = append(stream, vfPkt{Type: rfRead, ID: uint32(5000 + i), Handle: r[0].Handle, Off: 0, Len: 100}.Frame()...)
			}
		}
		if tail == "garbage" {
			stream = append(stream, vfFrame([]byte{99, 0, 0, 0, 1, 2, 3})...)
			stream = append(stream, vfPkt{Type: rfMkdir, ID: 0xCAFE, Path: e.p("CANARY")}.Frame()...)
		}
		w := map[string]any{"config": label}
		rs.R.Send(stream)
		if msg := rs.End(120 * time.Second); msg != "" {
			u.Violation("serve-does-not-return:"+e.kind.String()+":burst-then-"+tail, label+": "+msg, w)
			continue
		}
		c07After(u, e, base, label, w)
		var got []byte
		if e.kind == vfOS {
			got, _ = os.ReadFile(e.p("burst"))
			if _, err := os.Lstat(e.p("CANARY")); err == nil {
				u.Violation("malformed-packet-acted-upon:"+e.kind.String()+":burst", label+": the request behind the malformed packet was executed", w)
			}
		} else {
			got, _ = e.store.Get(e.p("burst"))
			if _, ok := e.store.Get("/CANARY"); ok {
				u.Violation("malformed-packet-acted-upon:"+e.kind.String()+":burst", label+": the request behind the malformed packet was executed", w)
			}
		}
		if !bytes.Equal(got, want) {
			u.Violation("well-formed-writes-lost:"+e.kind.String()+":burst-then-"+tail, fmt.Sprintf("%s: the file has %d bytes, %d were written by well-formed requests that preceded the end of the stream (first difference at %d)", label, len(got), len(want), vfFirstDiff(got, want)), w)
		}
	}
}

// c07InitVariants: the first packet of a session is input like any other. INIT packets announcing any version
// (with and without extension data, once or twice), followed by ordinary requests and the end of the stream:
// Serve returns, nothing leaks, and what was answered is a prefix of [VERSION, the answers to the requests].
// c07ManyHandles: a session that holds very many handles open at once (files, directories and refused opens mixed)
// and then ends without closing any: every OPEN of an existing object is answered with a handle and everything the
// server opened is released when Serve returns.
func c07ManyHandles(u *vfUnit, idx int) {
	e := &c07Env{kind: vfKind(idx % 2), alloc: (idx/2)%2 == 1}
	if e.kind == vfOS {
		e.dir = filepath.Join(u.TempDir(), "srv")
	}
	for ni, n := range []int{300, 1025, 2600} {
		if e.kind == vfOS {
			// every handle of the os-backed server is a descriptor of this process: stay well below the limit
			var lim syscall.Rlimit
			if syscall.Getrlimit(syscall.RLIMIT_NOFILE, &lim) == nil && uint64(n) > (lim.Cur-min(lim.Cur, 200)) {
				n = int(lim.Cur - min(lim.Cur, 200))
			}
		}
		label := fmt.Sprintf("many-handles/%v/alloc=%v/n=%d", e.kind, e.alloc, n)
		if !u.Case(ni, fmt.Sprintf("%s:many-handles", e.kind), "%s", label) {
			continue
		}
		u.Eval(label)
		u.Count("mutated_streams", 1)
		u.SetAdd("mutation_kinds", "many-open-handles-then-eof")
		e.reset()
		base := vfGoBaseline()
		rs, err := c07Connect(e)
		if err != nil {
			u.Inconclusive("connect: %v", err)
			return
		}
		var stream []byte
		wantHandle := make([]bool, n)
		for i := 0; i < n; i++ {
			var p vfPkt
			switch i % 5 {
			case 0, 1:
				p = vfPkt{Type: rfOpen, Path: e.p("a"), Pflags: rfRead_}
				wantHandle[i] = true
			case 2:
				p = vfPkt{Type: rfOpendir, Path: e.p("d")}
				wantHandle[i] = true
			case 3:
				p = vfPkt{Type: rfOpen, Path: e.p("b"), Pflags: rfRead_ | rfWrite_}
				wantHandle[i] = true
			default:
				p = vfPkt{Type: rfOpen, Path: e.p("missing"), Pflags: rfRead_}
			}
			p.ID = uint32(1000 + i)
			stream = append(stream, p.Frame()...)
		}
		cnt0 := rs.R.Count()
		sent := vfGo(func() { rs.R.Send(stream) })
		w := map[string]any{"config": label}
		wv, dump := rs.R.WaitCount(cnt0+n, 180*time.Second)
		<-sent
		if wv == vfStuck {
			u.Violation("serve-wedged:"+e.kind.String()+":many-handles", fmt.Sprintf("%s: %d of %d answers arrived and the process is quiescent\n%s", label, rs.R.Count()-cnt0, n, vfTrim(dump, 2000)), w)
		} else if wv != vfDone {
			u.Inconclusive("%s: wall-clock cap", label)
		}
		all := rs.R.All()
		if len(all)-cnt0 < n && wv == vfDone {
			u.Violation("many-handles-session-ended:"+e.kind.String(), fmt.Sprintf("%s: the server ended the session after %d of %d answers although every request was well-formed", label, len(all)-cnt0, n), w)
		}
		refused := 0
		for i := 0; i < n && cnt0+i < len(all); i++ {
			p, perr := vfParse(all[cnt0+i], true)
			if perr != nil || p.ID != uint32(1000+i) || (wantHandle[i] && p.Type != rfHandle) || (!wantHandle[i] && p.Type != rfStatus) {
				refused++
				if refused == 1 {
					u.Violation("many-handles-open-answer:"+e.kind.String(), fmt.Sprintf("%s: open request #%d of %d (objects exist, every earlier handle still open) answered %v (%v)", label, i, n, p, perr), w)
				}
			}
		}
		if msg := rs.End(180 * time.Second); msg != "" {
			u.Violation("serve-does-not-return:"+e.kind.String()+":many-handles", label+": "+msg, w)
			continue
		}
		c07After(u, e, base, label, w)
		u.Max("handles_open_at_once", int64(n*4/5))
	}
}

func c07InitVariants(u *vfUnit, idx int) {
	e := &c07Env{kind: vfKind(idx % 2), alloc: (idx/2)%2 == 1}
	if e.kind == vfOS {
		e.dir = filepath.Join(u.TempDir(), "srv")
	}
	versions := []uint32{0, 1, 2, 3, 4, 5, 6, 1 << 31, 1<<32 - 1}
	for vi, v := range versions {
		for variant := 0; variant < 3; variant++ {
			label := fmt.Sprintf("init/%v/alloc=%v/version=%d/variant=%d", e.kind, e.alloc, v, variant)
			if !u.Case(vi*3+variant, fmt.Sprintf("%s:init-version", e.kind), "%s", label) {
				continue
			}
			u.Eval(label)
			u.Count("mutated_streams", 1)
			u.SetAdd("mutation_kinds", "init-version")
			e.reset()
			base := vfGoBaseline()
			if e.kind == vfOS {
				rtdebug.SetGCPercent(-1)
			}
			cfg := vfSrvCfg{Kind: e.kind, Alloc: e.alloc}
			if e.kind == vfRS {
				cfg.H = e.store.Handlers(vfHandlerOpt{OpenFile: true, CmdAll: true, ListAll: true})
			}
			rs, err := vfRawConnect(cfg, vfPipeOpts{}, false)
			if err != nil {
				u.Inconclusive("connect: %v", err)
				return
			}
			init := vfPkt{Type: rfInit, Version: v}
			if variant == 1 {
				init.Exts = [][2]string{{"vendor@example.com", "1"}}
			}
			stream := init.Frame()
			if variant == 2 {
				stream = append(stream, init.Frame()...)
			}
			stream = append(stream, vfPkt{Type: rfStat, ID: 7, Path: e.p("a")}.Frame()...)
			stream = append(stream, vfPkt{Type: rfMkdir, ID: 8, Path: e.p("made-after-init")}.Frame()...)
			want := 3
			if variant == 2 {
				want = 4
			}
			rs.R.Send(stream)
			w := map[string]any{"config": label}
			// the answers (if the server chooses to go on) arrive before the stream is ended
			if wv, dump := rs.R.WaitCount(want, 120*time.Second); wv == vfStuck {
				u.Violation("serve-wedged:"+e.kind.String()+":init-version", fmt.Sprintf("%s: %d of %d answers arrived and the server neither goes on nor ends the session\n%s", label, rs.R.Count(), want, vfTrim(dump, 2000)), w)
				rs.End(60 * time.Second)
				continue
			}
			if msg := rs.End(120 * time.Second); msg != "" {
				u.Violation("serve-does-not-return:"+e.kind.String()+":init-version", label+": "+msg, w)
				continue
			}
			c07After(u, e, base, label, w)
			for i, body := range rs.R.All() {
				p, perr := vfParse(body, true)
				ok := perr == nil
				switch {
				case !ok:
				case i == 0 || (variant == 2 && i == 1):
					ok = p.Type == rfVersion && p.Version == 3
				default:
					ok = (p.ID == 7 && p.Type == rfAttrs) || (p.ID == 8 && p.Type == rfStatus)
				}
				if !ok {
					u.Violation("reply-beyond-prefix:"+e.kind.String()+":init-version", fmt.Sprintf("%s: answer %d is %v (%v)", label, i, p, perr), w)
					break
				}
			}
		}
	}
}

func c07Run(u *vfUnit) {
	if u.Index >= 84 {
		c07ManyHandles(u, u.Index-84)
		return
	}
	if u.Index >= 80 {
		c07InitVariants(u, u.Index-80)
		return
	}
	if u.Index >= 64 {
		c07Burst(u, u.Index-64)
		return
	}
	si := u.Index % 8
	cfgi := (u.Index / 8) % 4
	e := &c07Env{kind: vfKind(cfgi % 2), alloc: cfgi/2 == 1, keepRead: u.Index/32 == 1}
	if e.kind == vfOS {
		e.dir = filepath.Join(u.TempDir(), "srv")
	}
	e.reset()
	sessions := c07Sessions(e)
	sess := sessions[si]
	label := fmt.Sprintf("session%d/%v/alloc=%v/keepRead=%v", si, e.kind, e.alloc, e.keepRead)
	u.SetAdd("sessions", fmt.Sprint(si))
	ref, ok := c07Reference(u, e, sess, label)
	if !ok {
		return
	}
	canary := vfPkt{Type: rfMkdir, ID: 0xCAFE, Path: e.p("CANARY")}
	muts := c07Mutations(u, sess, len(sess)/2)
	for mi, m := range muts {
		if !u.Case(mi, fmt.Sprintf("%s:%s:%s", e.kind, m.kind, rfTypeName(sess[m.j].Type)), "%s %s bytes=%x", label, m.desc, vfTrimB(m.bytes, 600)) {
			continue
		}
		u.Eval(fmt.Sprintf("%s/%d/%s", label, m.j, m.kind))
		u.Count("mutated_streams", 1)
		u.SetAdd("mutation_kinds", m.kind)
		if m.definit {
			u.Count("definitely_malformed", 1)
		}
		w := map[string]any{"config": label, "mutation": m.desc, "bytes_hex": fmt.Sprintf("%x", vfTrimB(m.bytes, 600)), "request_index": m.j}
		e.reset()
		e.debug = mi%2 == 1
		base := vfGoBaseline()
		rs, err := c07Connect(e)
		if err != nil {
			u.Inconclusive("connect: %v", err)
			return
		}
		good := true
		for i := 0; i < m.j; i++ {
			n := rs.R.Count()
			rs.R.SendPkts(sess[i])
			if wr, dump := rs.R.WaitCount(n+1, 120*time.Second); wr != vfDone {
				u.Violation("prefix-no-reply:"+e.kind.String(), fmt.Sprintf("%s: no reply to well-formed prefix request %s\n%s", label, sess[i], vfTrim(dump, 1500)), w)
				good = false
				break
			}
			if all := rs.R.All(); len(all) <= n || !c07SameReply(all[n], ref.replies[i]) {
				u.Violation("prefix-reply-differs:"+e.kind.String(), fmt.Sprintf("%s: reply to prefix request %s differs between two runs on identical state", label, sess[i]), w)
				good = false
				break
			}
		}
		if !good {
			rs.End(60 * time.Second)
			continue
		}
		nBefore := rs.R.Count()
		stream := append([]byte(nil), m.bytes...)
		if !m.eof {
			stream = append(stream, canary.Frame()...)
		}
		rs.R.Send(stream)
		if msg := rs.End(120 * time.Second); msg != "" {
			u.Violation("serve-does-not-return:"+e.kind.String()+":"+m.kind, fmt.Sprintf("%s, %s: %s", label, m.desc, msg), w)
			continue
		}
		c07After(u, e, base, label+", "+m.desc, w)
		extra := rs.R.All()[min(nBefore, len(rs.R.All())):]
		st := e.state()
		if m.definit {
			if len(extra) > 0 {
				var l []string
				for _, b := range extra {
					p, _ := vfParse(b, false)
					l = append(l, p.String())
				}
				u.Violation("reply-beyond-prefix:"+e.kind.String()+":"+m.kind+":"+rfTypeName(sess[m.j].Type), fmt.Sprintf("%s, %s: the server emitted %d response(s) after the malformed packet: %v", label, m.desc, len(extra), l), w)
			}
			if st != ref.states[m.j] {
				u.Violation("malformed-packet-acted-upon:"+e.kind.String()+":"+m.kind+":"+rfTypeName(sess[m.j].Type), fmt.Sprintf("%s, %s: final state differs from the state before the malformed packet:\n%s", label, m.desc, vfTrim(vfLineDiff(ref.states[m.j], st), 900)), w)
			}
		} else {
			// ambiguous mutation: the state must be the reference state before or after this request (with or without canary)
			_ = st
		}
		if mi == 0 {
			u.Sample(map[string]any{"config": label, "mutation": m.desc, "oracles": "survive, Serve returns, no leak, no reply beyond prefix, state == snapshot before request"})
		}
	}
}

// c07SameReply compares two replies of the same server to the same request on
// identical state. Values that legitimately move between two runs are masked:
// statvfs free-block counts, and times of objects the session itself modified
// (run-time mtimes; also rendered in long names).
func c07SameReply(a, b []byte) bool {
	if bytes.Equal(a, b) {
		return true
	}
	pa, ea := vfParse(a, false)
	pb, eb := vfParse(b, false)
	if ea != nil || eb != nil || pa.Type != pb.Type || pa.ID != pb.ID {
		return false
	}
	switch pa.Type {
	case rfExtendedReply:
		return len(a) == len(b)
	case rfAttrs:
		pa.Attrs.Atime, pa.Attrs.Mtime, pb.Attrs.Atime, pb.Attrs.Mtime = 0, 0, 0, 0
		return fmt.Sprintf("%+v", pa.Attrs) == fmt.Sprintf("%+v", pb.Attrs)
	case rfName:
		if len(pa.Names) != len(pb.Names) {
			return false
		}
		for i := range pa.Names {
			x, y := pa.Names[i], pb.Names[i]
			x.Attrs.Atime, x.Attrs.Mtime, y.Attrs.Atime, y.Attrs.Mtime = 0, 0, 0, 0
			if x.Name != y.Name || fmt.Sprintf("%+v", x.Attrs) != fmt.Sprintf("%+v", y.Attrs) {
				return false
			}
		}
		return true
	}
	return false
}
