//go:build verif

package sftp

// C11 — Handles are unique, die on close, and all resources are released once.

import (
	"fmt"
	"os"
	"path/filepath"
	"runtime"
	rtdebug "runtime/debug"
	"strings"
	"sync"
	"syscall"
	"testing"
	"time"
)

func TestVerifC11(t *testing.T) {
	vfMain(t, vfCheck{
		ID: "C11", Level: "fault_enumeration",
		Rule:        "seeded sequential sessions over both servers (allocator on/off): opens that succeed and fail, OPENDIR, up to 50 simultaneously open handles, closes of live, already closed and bogus handles, READ/WRITE/FSTAT/FSETSTAT/READDIR/CLOSE on stale and never-issued handles; each session is replayed and ended after request k (quick: 6 seeded k + the end; thorough: every k) by EOF, by a transport error in the middle of the next packet, and by a connection reset. A class is (server, allocator, ending, open handles at the end bucket).",
		Assumptions: []string{"only objects bound to a handle are judged (listers fetched for Stat/Lstat/Readlink are transient and are reported, not judged)", "race detector on"},
		Units: func(tier vfTier, seed uint64) int {
			if tier == vfThorough {
				return 160
			}
			return 16
		},
		Shards: func(tier vfTier) int {
			if tier == vfThorough {
				return 14
			}
			return 8
		},
		Floors: map[string]int64{"sessions_run": 100, "stale_or_bogus_handle_requests": 400, "handles_issued": 800, "objects_judged": 300, "endings_with_open_handles": 40, "endings_with_opens_in_flight": 20},
		Run:    c11Run,
	})
}

type c11Op struct {
	kind   string // open-ok open-fail opendir-ok opendir-fail close use stale-* bogus-*
	slot   int    // index into issued handles (for close/use/stale)
	pkt    vfPkt
	expect string // "handle" | "fail" | "ok" | "any"
}

type c11Env struct {
	kind  vfKind
	alloc bool
	dir   string
	store *vfStore
}

func (e *c11Env) reset() {
	if e.kind == vfOS {
		vfChmodAll(e.dir)
		os.RemoveAll(e.dir)
		os.MkdirAll(filepath.Join(e.dir, "d"), 0o755)
		for i := 0; i < 6; i++ {
			os.WriteFile(filepath.Join(e.dir, fmt.Sprintf("f%d", i)), vfPattern(uint64(i), 0, 200+i), 0o644)
		}
		os.WriteFile(filepath.Join(e.dir, "d", "x"), []byte("x"), 0o644)
		syscall.Mkfifo(filepath.Join(e.dir, "fifo0"), 0o644) // opened read+write (does not block): a file like any other for the handle table
	} else {
		e.store = vfNewStore()
		e.store.Mkdir("/d")
		for i := 0; i < 6; i++ {
			e.store.Put(fmt.Sprintf("/f%d", i), vfPattern(uint64(i), 0, 200+i))
		}
		e.store.Put("/d/x", []byte("x"))
	}
}

func (e *c11Env) p(rel string) string {
	if e.kind == vfOS {
		return filepath.Join(e.dir, rel)
	}
	return "/" + rel
}

// activity is a fingerprint of everything a stale-handle request must not touch.
func (e *c11Env) activity() string {
	if e.kind == vfOS {
		t := vfSnapshot(e.dir, vfSnapOpts{Mtime: true})
		var b strings.Builder
		var keys []string
		for k := range t {
			keys = append(keys, k)
		}
		sortStrings(keys)
		for _, k := range keys {
			fmt.Fprintf(&b, "%s %+v;", k, t[k])
		}
		return b.String()
	}
	var b strings.Builder
	fmt.Fprintf(&b, "calls=%d;", len(e.store.Calls()))
	for _, o := range e.store.Objs() {
		fmt.Fprintf(&b, "%s r%d w%d c%d;", o.path, o.reads.Load(), o.writes.Load(), o.closes.Load())
	}
	b.WriteString(e.store.Snapshot())
	return b.String()
}

// c11Script generates a session as a list of abstract steps resolved at run time.
type c11Step struct {
	op   string
	arg  int
	path string
	pf   uint32
}

func c11Script(r *vfRand, n int, many bool) []c11Step {
	var out []c11Step
	if many {
		for i := 0; i < 50; i++ {
			out = append(out, c11Step{op: "open", path: fmt.Sprintf("f%d", i%6), pf: rfRead_})
		}
	}
	for len(out) < n {
		switch x := r.Intn(100); {
		case x < 18:
			out = append(out, c11Step{op: "open", path: fmt.Sprintf("f%d", r.Intn(6)), pf: vfPick(r, []uint32{rfRead_, rfWrite_, rfRead_ | rfWrite_, rfWrite_ | rfCreat_})})
		case x < 22:
			if r.Intn(3) == 0 {
				out = append(out, c11Step{op: "open-os-only", path: "fifo0", pf: rfRead_ | rfWrite_})
			} else {
				out = append(out, c11Step{op: "open", path: "new" + fmt.Sprint(r.Intn(3)), pf: rfWrite_ | rfCreat_})
			}
		case x < 28:
			out = append(out, c11Step{op: "open-fail", path: "missing" + fmt.Sprint(r.Intn(3)), pf: rfRead_})
		case x < 34:
			out = append(out, c11Step{op: "opendir", path: "d"})
		case x < 38:
			if r.Bool() {
				out = append(out, c11Step{op: "opendir-fail", path: "nodir"})
			} else {
				// OPENDIR of something that exists but is not a directory (os-backed server): refused, nothing stays open
				out = append(out, c11Step{op: "opendir-file-fail", path: fmt.Sprintf("f%d", r.Intn(6))})
			}
		case x < 52:
			out = append(out, c11Step{op: "close-live", arg: r.Intn(1 << 20)})
		case x < 60:
			out = append(out, c11Step{op: "close-stale", arg: r.Intn(1 << 20)})
		case x < 66:
			out = append(out, c11Step{op: "close-bogus", arg: r.Intn(len(c11Bogus))})
		case x < 78:
			out = append(out, c11Step{op: "use-live", arg: r.Intn(1 << 20)})
		case x < 92:
			out = append(out, c11Step{op: "use-stale", arg: r.Intn(1 << 20), pf: uint32(r.Intn(7))})
		default:
			out = append(out, c11Step{op: "use-bogus", arg: r.Intn(len(c11Bogus)), pf: uint32(r.Intn(7))})
		}
	}
	return out
}

var c11Bogus = []string{"", "0", "999999", "abc", "1 ", strings.Repeat("9", 300), strings.Repeat("h", 257), strings.Repeat("7", 4096)}

type c11Handle struct {
	s      string
	isDir  bool
	open   bool
	path   string
	objIdx int // index into store.Objs() at open time (RS)
}

type c11Run_ struct {
	u          *vfUnit
	e          *c11Env
	rs         *vfRawSession
	hs         []*c11Handle
	seen       map[string]bool
	id         uint32
	label      string
	broken     bool
	closeFails bool
}

func (x *c11Run_) req(p vfPkt) (vfPkt, bool) {
	x.id++
	p.ID = x.id
	resp, err := x.rs.R.Phase(120*time.Second, p)
	if err != nil || len(resp) != 1 {
		x.u.Violation("no-reply:"+x.e.kind.String(), fmt.Sprintf("%s: %s: %v", x.label, p, err), nil)
		x.broken = true
		return vfPkt{}, false
	}
	return resp[0], true
}

func (x *c11Run_) pick(open bool, n int) *c11Handle {
	var c []*c11Handle
	for _, h := range x.hs {
		if h.open == open {
			c = append(c, h)
		}
	}
	if len(c) == 0 {
		return nil
	}
	return c[n%len(c)]
}

// step executes one script step with its per-reply oracles.
func (x *c11Run_) step(st c11Step) {
	u, e := x.u, x.e
	switch st.op {
	case "open", "open-fail", "opendir", "opendir-fail", "opendir-file-fail", "open-os-only":
		if (st.op == "opendir-file-fail" || st.op == "open-os-only") && e.kind != vfOS {
			return
		}
		var p vfPkt
		if strings.HasPrefix(st.op, "opendir") {
			p = vfPkt{Type: rfOpendir, Path: e.p(st.path)}
		} else {
			p = vfPkt{Type: rfOpen, Path: e.p(st.path), Pflags: st.pf}
		}
		nobj := 0
		if e.kind == vfRS {
			nobj = len(e.store.Objs())
		}
		r, ok := x.req(p)
		if !ok {
			return
		}
		wantOK := !strings.HasSuffix(st.op, "-fail")
		if wantOK && r.Type != rfHandle {
			u.Violation("open-refused:"+e.kind.String(), fmt.Sprintf("%s: %s answered %s", x.label, p, r), nil)
			return
		}
		if !wantOK {
			if r.Type == rfHandle {
				u.Violation("open-of-missing-succeeded:"+e.kind.String(), fmt.Sprintf("%s: %s answered %s", x.label, p, r), nil)
			}
			return
		}
		u.Count("handles_issued", 1)
		if x.seen[r.Handle] {
			u.Violation("handle-reused:"+e.kind.String(), fmt.Sprintf("%s: handle %q issued twice in one session (second time for %s)", x.label, r.Handle, p), map[string]any{"handle": r.Handle})
		}
		x.seen[r.Handle] = true
		x.hs = append(x.hs, &c11Handle{s: r.Handle, isDir: p.Type == rfOpendir, open: true, path: p.Path, objIdx: nobj})
	case "close-live":
		h := x.pick(true, st.arg)
		if h == nil {
			return
		}
		r, ok := x.req(vfPkt{Type: rfClose, Handle: h.s})
		if !ok {
			return
		}
		h.open = false
		if !(r.Type == rfStatus && r.Code == rfOK) && !(x.closeFails && r.Type == rfStatus) {
			u.Violation("close-failed:"+e.kind.String(), fmt.Sprintf("%s: CLOSE of live handle %q answered %s", x.label, h.s, r), nil)
		}
		if e.kind == vfRS {
			// the context handed to the open/opendir handler must be cancelled once the handle is closed
			if objs := e.store.Objs(); h.objIdx < len(objs) {
				o := objs[h.objIdx]
				u.Count("contexts_checked_at_close", 1)
				if !o.CtxDone() {
					u.Violation("context-not-cancelled-at-close:"+o.kind, fmt.Sprintf("%s: handle %q (%s %s) was closed but the context given to its handler is not cancelled", x.label, h.s, o.kind, o.path), nil)
				}
				if n := o.closes.Load(); n != 1 {
					u.Violation(fmt.Sprintf("object-closed-%d-times-at-close", n), fmt.Sprintf("%s: after CLOSE of handle %q its %s object was closed %d times", x.label, h.s, o.kind, n), nil)
				}
			}
		}
	case "close-stale", "close-bogus", "use-stale", "use-bogus":
		var hs string
		var isDir bool
		if strings.HasSuffix(st.op, "stale") {
			h := x.pick(false, st.arg)
			if h == nil {
				return
			}
			hs, isDir = h.s, h.isDir
		} else {
			hs = c11Bogus[st.arg%len(c11Bogus)]
			if x.seen[hs] {
				return
			}
		}
		var p vfPkt
		if strings.HasPrefix(st.op, "close") {
			p = vfPkt{Type: rfClose, Handle: hs}
		} else {
			switch st.pf % 7 {
			case 5: // an attribute request that carries no attribute at all: still a request on a dead handle
				p = vfPkt{Type: rfFsetstat, Handle: hs, Attrs: vfAttrs{}}
			case 6:
				p = vfPkt{Type: rfExtended, Ext: "fsync@openssh.com", Handle: hs}
			case 0:
				p = vfPkt{Type: rfRead, Handle: hs, Off: 0, Len: 50}
			case 1:
				p = vfPkt{Type: rfWrite, Handle: hs, Off: 0, Data: []byte("STALE-WRITE")}
				if st.arg%2 == 1 {
					p.Data = nil // a write of nothing is still a request on a dead handle
				}
			case 2:
				p = vfPkt{Type: rfFstat, Handle: hs}
			case 3:
				p = vfPkt{Type: rfFsetstat, Handle: hs, Attrs: vfAttrs{Flags: rfAttrSize, Size: 3}}
			case 4:
				p = vfPkt{Type: rfReaddir, Handle: hs}
			}
		}
		_ = isDir
		before := e.activity()
		r, ok := x.req(p)
		if !ok {
			return
		}
		u.Count("stale_or_bogus_handle_requests", 1)
		after := e.activity()
		w := map[string]any{"session": x.label, "request": p.String(), "reply": r.String()}
		if !(r.Type == rfStatus && r.Code != rfOK && r.Code != rfEOF) {
			u.Violation("stale-handle-accepted:"+e.kind.String()+":"+rfTypeName(p.Type), fmt.Sprintf("%s: %s on a %s handle answered %s instead of a failure", x.label, p, st.op, r), w)
		}
		if before != after {
			u.Violation("stale-handle-touched-state:"+e.kind.String()+":"+rfTypeName(p.Type), fmt.Sprintf("%s: %s on a %s handle touched files/handlers:\n%s", x.label, p, st.op, vfTrim(vfLineDiff(strings.ReplaceAll(before, ";", "\n"), strings.ReplaceAll(after, ";", "\n")), 600)), w)
		}
	case "use-live":
		h := x.pick(true, st.arg)
		if h == nil {
			return
		}
		var p vfPkt
		if h.isDir {
			p = vfPkt{Type: rfReaddir, Handle: h.s}
		} else {
			p = vfPkt{Type: rfFstat, Handle: h.s}
		}
		if r, ok := x.req(p); ok && r.Type == rfStatus && r.Code != rfEOF && r.Code != rfOK && !h.isDir && e.kind == vfOS {
			u.Violation("live-handle-refused:"+e.kind.String(), fmt.Sprintf("%s: %s on a live handle answered %s", x.label, p, r), nil)
		}
	}
}

// c11UseDuringSlowClose (request server): a handler object whose Close takes its time. Requests on the handle that
// arrive while that Close is running name a handle that is being closed: they fail, and the object is not used
// any more once its Close has begun.
func c11UseDuringSlowClose(u *vfUnit, alloc bool) {
	for _, pf := range []uint32{rfRead_, rfWrite_, rfRead_ | rfWrite_} {
		store := vfNewStore()
		store.Put("/slow", vfPattern(5, 0, 300))
		entered := make(chan struct{}, 4)
		release := make(chan struct{})
		store.CloseHook = func(p string) {
			entered <- struct{}{}
			<-release
		}
		rs, err := vfRawConnect(vfSrvCfg{Kind: vfRS, Alloc: alloc, H: store.Handlers(vfHandlerOpt{OpenFile: true, ListAll: true})}, vfPipeOpts{}, true)
		if err != nil {
			u.Inconclusive("connect: %v", err)
			return
		}
		label := fmt.Sprintf("RequestServer/alloc=%v/use-during-slow-Close/pflags=%#x", alloc, pf)
		hr, err := rs.R.Phase(60*time.Second, vfPkt{Type: rfOpen, ID: 2, Path: "/slow", Pflags: pf})
		if err != nil || len(hr) != 1 || hr[0].Type != rfHandle {
			u.Violation("open-failed", fmt.Sprintf("%s: %v %v", label, hr, err), nil)
			close(release)
			rs.End(60 * time.Second)
			return
		}
		h := hr[0].Handle
		base := rs.R.Count()
		rs.R.SendPkts(vfPkt{Type: rfClose, ID: 3, Handle: h})
		if w, _ := vfAwait(vfGo(func() { <-entered }), 60*time.Second); w != vfDone {
			u.Violation("close-not-forwarded", label+": CLOSE did not reach the handler object's Close", nil)
			close(release)
			rs.End(60 * time.Second)
			return
		}
		use := vfPkt{Type: rfRead, ID: 4, Handle: h, Off: 0, Len: 50}
		if pf == rfWrite_ {
			use = vfPkt{Type: rfWrite, ID: 4, Handle: h, Off: 0, Data: []byte("LATE")}
		}
		rs.R.SendPkts(use, vfPkt{Type: rfFstat, ID: 5, Handle: h})
		// give the server every chance to act on them while Close is still running
		for spin := 0; spin < 3000; spin++ {
			runtime.Gosched()
		}
		time.Sleep(30 * time.Millisecond)
		close(release)
		w, dump := rs.R.WaitCount(base+3, 60*time.Second)
		u.Count("requests_during_a_slow_close", 2)
		if w == vfStuck {
			u.Violation("serve-wedged:use-during-close", label+": replies missing, process quiescent\n"+vfTrim(dump, 2000), nil)
		}
		for _, body := range rs.R.All()[min(base, rs.R.Count()):] {
			p, perr := vfParse(body, true)
			if perr != nil {
				continue
			}
			if (p.ID == 4 || p.ID == 5) && !(p.Type == rfStatus && p.Code != rfOK) {
				u.Violation("request-on-closing-handle-served", fmt.Sprintf("%s: %s, received while the Close of the handle's object was running, was answered %s", label, map[uint32]string{4: use.String(), 5: "FSTAT"}[p.ID], p), nil)
			}
		}
		if msg := rs.End(60 * time.Second); msg != "" {
			u.Violation("serve-end", label+": "+msg, nil)
		}
		for _, o := range store.Objs() {
			if o.kind == "stat" {
				continue
			}
			if n := o.afterClose.Load(); n > 0 {
				u.Violation("object-used-after-close-began", fmt.Sprintf("%s: %d ReadAt/WriteAt/ListAt calls on the handler object for %s started after its Close had begun", label, n, o.path), nil)
			}
			if n := o.closes.Load(); n != 1 {
				u.Violation(fmt.Sprintf("object-closed-%d-times", n), fmt.Sprintf("%s: handler object for %s closed %d times", label, o.path, n), nil)
			}
		}
	}
}

func c11Run(u *vfUnit) {
	r := u.Rng
	e := &c11Env{kind: vfKind(u.Index % 2), alloc: (u.Index/2)%2 == 1}
	if e.kind == vfRS {
		c11UseDuringSlowClose(u, e.alloc)
	}
	if e.kind == vfOS {
		e.dir = filepath.Join(u.TempDir(), "srv")
	}
	script := c11Script(r, 40+r.Intn(40), u.Index%8 >= 6)
	// endings: (k, how)
	type ending struct {
		k   int
		how string
	}
	var ends []ending
	ends = append(ends, ending{len(script), "clean-close-all"}, ending{len(script), "eof"})
	ks := map[int]bool{}
	if u.Tier == vfThorough {
		for k := 0; k <= len(script); k++ {
			ks[k] = true
		}
	} else {
		for i := 0; i < 6; i++ {
			ks[r.Intn(len(script)+1)] = true
		}
	}
	for k := range ks {
		for _, how := range []string{"eof", "midpacket-error", "midpacket-eof", "reset", "eof-during-open", "reset-during-open", "invalid-packet"} {
			ends = append(ends, ending{k, how})
		}
	}
	for ei, en := range ends {
		e.reset()
		closeFails := false
		base := vfGoBaseline()
		cfg := vfSrvCfg{Kind: e.kind, Alloc: e.alloc}
		if e.kind == vfRS {
			cfg.H = e.store.Handlers(vfHandlerOpt{OpenFile: ei%2 == 0, CmdAll: true, ListAll: true})
			// every other session of a pair: handlers that work with their own derivation of the request (WithContext)
			e.store.ViaWithContext = (ei/2)%2 == 1
			if ei%3 == 1 {
				// handler objects whose Close reports an error: the handle must die all the same
				// (whatever value the error has: the harness's own, interrupted, temporary, stale, end-of-file ...)
				cerr := vfFaultErr(ei / 3)
				if (ei/3)%len(vfFaultPool()) == 0 {
					e.store.CloseErr = func(p string) error { return fmt.Errorf("close of %s failed", p) }
				} else {
					e.store.CloseErr = func(p string) error { return cerr }
				}
				closeFails = true
			}
		}
		// no garbage collection until the descriptor check after Serve: a forgotten file must not be rescued by a finalizer
		if e.kind == vfOS {
			rtdebug.SetGCPercent(-1)
		}
		rs, err := vfRawConnect(cfg, vfPipeOpts{}, true)
		if err != nil {
			u.Inconclusive("connect: %v", err)
			return
		}
		label := fmt.Sprintf("%v/alloc=%v/end=%s@%d/%d", e.kind, e.alloc, en.how, en.k, len(script))
		if closeFails {
			label += "/close-fails"
			u.Count("sessions_with_failing_handler_close", 1)
		}
		x := &c11Run_{u: u, e: e, rs: rs, seen: map[string]bool{}, label: label, id: 10, closeFails: closeFails}
		for i := 0; i < en.k && i < len(script) && !x.broken; i++ {
			x.step(script[i])
		}
		// a host object outside the served tree on which open succeeds and a later fchmod would fail (procfs), opened with
		// CREAT and a permissions attribute: whatever the server answers, no descriptor on it may survive Serve
		hostObj := fmt.Sprintf("/proc/%d/status", os.Getpid())
		hostBefore := 0
		if e.kind == vfOS {
			hostBefore = len(vfFDsUnder(hostObj))
			if !x.broken {
				if rr, ok := x.req(vfPkt{Type: rfOpen, Path: "/proc/self/status", Pflags: rfRead_ | rfCreat_, Attrs: vfAttrs{Flags: 0x4, Perm: 0o600}}); ok {
					u.Count("host_object_opens_with_permissions", 1)
					if rr.Type == rfHandle {
						if x.seen[rr.Handle] {
							u.Violation("handle-reused:"+e.kind.String(), fmt.Sprintf("%s: handle %q issued twice in one session (second time for the host object)", label, rr.Handle), map[string]any{"handle": rr.Handle})
						}
						x.seen[rr.Handle] = true
						x.hs = append(x.hs, &c11Handle{s: rr.Handle, open: true, path: "/proc/self/status"})
					}
				}
			}
		}
		u.Count("sessions_run", 1)
		openAtEnd := 0
		for _, h := range x.hs {
			if h.open {
				openAtEnd++
			}
		}
		bucket := "0"
		if openAtEnd > 0 {
			bucket = "1+"
			u.Count("endings_with_open_handles", 1)
		}
		if openAtEnd > 20 {
			bucket = "20+"
		}
		u.Eval(fmt.Sprintf("%v/%v/%s/%s", e.kind, e.alloc, en.how, bucket))
		u.Max("max_open_handles", int64(openAtEnd))
		// the ending
		endMsg := ""
		inflightOpens := 0
		switch en.how {
		case "clean-close-all":
			for _, h := range x.hs {
				if h.open && !x.broken {
					if rr, ok := x.req(vfPkt{Type: rfClose, Handle: h.s}); ok && !(rr.Type == rfStatus && rr.Code == rfOK) && !closeFails {
						u.Violation("close-failed:"+e.kind.String(), fmt.Sprintf("%s: final CLOSE of %q answered %s", label, h.s, rr), nil)
					}
					h.open = false
				}
			}
			openAtEnd = 0
			endMsg = rs.End(120 * time.Second)
		case "eof":
			endMsg = rs.End(120 * time.Second)
		case "midpacket-error", "midpacket-eof":
			// the next request is cut in the middle: the server's reader sees an error / EOF inside a frame
			p := vfPkt{Type: rfWrite, ID: 77777, Handle: "1", Off: 0, Data: []byte("never-complete")}
			if h := x.pick(true, en.k); h != nil {
				p.Handle = h.s
			}
			fr := p.Frame()
			cut := 1 + r.Intn(len(fr)-1)
			var cerr error
			if en.how == "midpacket-error" {
				// (whatever value the transport's failure has, also "use of closed network connection")
				cerr = vfFaultErr(ei + u.Index)
			}
			rs.Ctl.CutAfter(vfC2S, rs.Ctl.Delivered(vfC2S)+int64(cut), cerr, nil)
			rs.R.Send(fr)
			if w, dump := vfAwait(rs.S.done, 120*time.Second); w != vfDone {
				endMsg = fmt.Sprintf("Serve did not return after its input failed mid-packet (%v)\n%s", w, vfTrim(dump, 3000))
			}
			rs.sEnd.Close()
			rs.cEnd.Close()
			<-rs.R.rdone
		case "invalid-packet":
			// a fourth way for a session to end: a well-framed packet that is no request (unknown type byte, or a
			// known type with a truncated body); the server stops serving, and the connection stays up until Serve returned
			bad := [][]byte{{0, 0, 0, 1, 0xEE}, {0, 0, 0, 5, 0xF0, 0, 0, 0, 1}, {0, 0, 0, 3, rfStat, 0, 0}, {0, 0, 0, 7, rfOpen, 0, 0, 0, 9, 0, 0}}[r.Intn(4)]
			rs.R.Send(bad)
			if w, dump := vfAwait(rs.S.done, 120*time.Second); w != vfDone {
				endMsg = fmt.Sprintf("Serve did not return after an invalid packet (%v)\n%s", w, vfTrim(dump, 3000))
			}
			rs.sEnd.Close()
			rs.cEnd.Close()
			<-rs.R.rdone
		case "eof-during-open", "reset-during-open":
			// OPEN/OPENDIR requests are still being served by (slow) handlers when the connection ends:
			// whatever they open must be released by the end of Serve as well
			if e.kind == vfRS {
				slow := r.Fork()
				var smu sync.Mutex
				e.store.OpenErr = func(m, p string) error {
					smu.Lock()
					d := 200 + slow.Intn(3000)
					smu.Unlock()
					time.Sleep(time.Duration(d) * time.Microsecond)
					return nil
				}
			}
			var burst []byte
			nOpen := 1 + r.Intn(4)
			for k := 0; k < nOpen; k++ {
				if k%3 == 2 {
					burst = append(burst, vfPkt{Type: rfOpendir, ID: uint32(88000 + k), Path: e.p("d")}.Frame()...)
				} else {
					burst = append(burst, vfPkt{Type: rfOpen, ID: uint32(88000 + k), Path: e.p(fmt.Sprintf("f%d", k)), Pflags: []uint32{rfRead_, rfWrite_, rfRead_ | rfWrite_}[k%3]}.Frame()...)
				}
			}
			rs.R.Send(burst)
			inflightOpens = nOpen
			if en.how == "eof-during-open" {
				endMsg = rs.End(120 * time.Second)
			} else {
				rs.cEnd.Close()
				if w, dump := vfAwait(rs.S.done, 120*time.Second); w != vfDone {
					endMsg = fmt.Sprintf("Serve did not return after a connection reset (%v)\n%s", w, vfTrim(dump, 3000))
				}
				rs.sEnd.Close()
				<-rs.R.rdone
			}
			u.Count("endings_with_opens_in_flight", 1)
		case "reset":
			// the whole connection goes away (both directions)
			rs.cEnd.Close()
			if w, dump := vfAwait(rs.S.done, 120*time.Second); w != vfDone {
				endMsg = fmt.Sprintf("Serve did not return after a connection reset (%v)\n%s", w, vfTrim(dump, 3000))
			}
			rs.sEnd.Close()
			<-rs.R.rdone
		}
		w := map[string]any{"session": label, "unit": u.Index, "ending_index": ei}
		if endMsg != "" {
			u.Violation("serve-does-not-return:"+e.kind.String()+":"+en.how, label+": "+endMsg, w)
			continue
		}
		if leaks := base.Leaks(); len(leaks) > 0 {
			u.Violation("goroutine-leak:"+e.kind.String(), fmt.Sprintf("%s: %d package goroutine(s) survive Serve\n%s", label, len(leaks), vfTrim(strings.Join(leaks, "\n\n"), 2000)), w)
		}
		if e.kind == vfOS {
			fds := vfFDsUnder(e.dir)
			if hfds := vfFDsUnder(hostObj); len(hfds) > hostBefore {
				fds = append(fds, hfds[hostBefore:]...)
			}
			rtdebug.SetGCPercent(100)
			if len(fds) > 0 {
				u.Violation("fd-leak:Server:"+en.how, fmt.Sprintf("%s: %d file(s) opened by the server still open after Serve returned: %v", label, len(fds), fds[:min(len(fds), 5)]), w)
			}
			u.Count("objects_judged", int64(len(x.hs)))
		} else {
			objs := e.store.Objs()
			// map handles to objects: handle-bound objects are created in open order
			var bound []*vfObj
			for _, o := range objs {
				if o.kind != "stat" {
					bound = append(bound, o)
				}
			}
			transient := len(objs) - len(bound)
			u.Count("transient_listers_seen", int64(transient))
			hi := 0
			for _, o := range bound {
				u.Count("objects_judged", 1)
				var h *c11Handle
				if hi < len(x.hs) {
					h = x.hs[hi]
				}
				hi++
				desc := fmt.Sprintf("%s object for %s", o.kind, o.path)
				if n := o.closes.Load(); n != 1 {
					u.Violation(fmt.Sprintf("object-closed-%d-times:%s", n, en.how), fmt.Sprintf("%s: %s was closed %d times", label, desc, n), w)
				}
				if n := o.afterClose.Load(); n > 0 {
					u.Violation("object-used-after-close", fmt.Sprintf("%s: %s received %d calls after Close", label, desc, n), w)
				}
				if !o.CtxDone() && o.kind != "stat" {
					u.Violation("context-not-cancelled:"+o.kind, fmt.Sprintf("%s: the context handed to the handler for %s is still not done after the session ended", label, desc), w)
				}
				if h == nil && inflightOpens > 0 && o.kind != "list" {
					// opened by a request that was still in flight when the connection ended: its handle
					// was open at the end of the session, so it must have been notified (once) and closed (checked above)
					if te := o.transferErrs.Load(); te != 1 {
						u.Violation(fmt.Sprintf("transfer-error-count-%d-for-late-open:%s", te, en.how), fmt.Sprintf("%s: %s (opened by a request in flight when the connection ended) got %d TransferError notifications", label, desc, te), w)
					}
				}
				if h != nil && (len(bound) == len(x.hs) || inflightOpens > 0) {
					te := o.transferErrs.Load()
					// TransferError is documented for the readerAt/writerAt objects only; a lister is
					// not required to be notified (it must still be closed exactly once).
					if h.open && te != 1 && o.kind != "list" {
						u.Violation(fmt.Sprintf("transfer-error-count-%d-for-open-handle:%s", te, en.how), fmt.Sprintf("%s: %s (handle %q still open at the end) got %d TransferError notifications", label, desc, h.s, te), w)
					}
					if !h.open && te != 0 {
						u.Violation("transfer-error-for-closed-handle:"+en.how, fmt.Sprintf("%s: %s (handle %q closed earlier) got %d TransferError notifications", label, desc, h.s, te), w)
					}
					if o.closedBeforeTE.Load() > 0 {
						u.Violation("transfer-error-after-close", fmt.Sprintf("%s: %s was notified after it had been closed", label, desc), w)
					}
				}
			}
			if len(bound) != len(x.hs) {
				u.Count("sessions_with_unmatched_objects", 1)
			}
		}
		if ei == 0 {
			u.Sample(map[string]any{"session": label, "steps": len(script), "handles_issued": len(x.hs), "open_at_end": openAtEnd})
		}
	}
}
