//go:build verif

package sftp

// C10 — The request server is a faithful adapter in both directions.

import (
	"errors"
	"fmt"
	"io"
	"os"
	"path"
	"strings"
	"sync"
	"syscall"
	"testing"
	"time"
)

func TestVerifC10(t *testing.T) {
	vfMain(t, vfCheck{
		ID: "C10", Level: "exploration",
		Rule:        "forward: every request type x generated paths (empty, relative, dot and dot-dot runs that try to climb above the root, repeated and trailing slashes, non-UTF-8, NUL, long) x start directories {/, /a, /a/b/, relative-looking, with ..} x optional-interface combinations {none, OpenFile, PosixRename+StatVFS, Lstat+RealPath+Readlink, legacy RealPath}: the recording handlers must see exactly one call with the method, flags, attribute bytes and the expected clean absolute path(s). Backward: a table of ~40 error values (fxerr codes, io.EOF, os.ErrNotExist, os.ErrPermission, ENOENT/EACCES/EPERM, each bare and inside *os.PathError/*os.LinkError/*os.SyscallError, other errors) returned from every handler entry point and from handler objects' ReadAt/WriteAt/ListAt vs the status code and text on the wire. A class is (request type, interface set, path shape) resp. (entry point, error value).",
		Assumptions: []string{"path oracle: path.IsAbs(q) && path.Clean(q)==q && q == (IsAbs(p) ? Clean(p) : Join(cleanStart,p)), written with package path only", "error text compared on the wire"},
		Units: func(tier vfTier, seed uint64) int {
			if tier == vfThorough {
				return 5*5*80 + 200
			}
			return 5*5*2 + 5
		},
		Shards: func(tier vfTier) int {
			if tier == vfThorough {
				return 12
			}
			return 8
		},
		Floors: map[string]int64{"forward_requests": 3000, "handler_calls_checked": 2500, "error_values_checked": 400, "path_shapes": 8},
		Run:    c10Run,
	})
}

var c10Starts = []string{"/", "/a", "/a/b/", "rel/dir", "/x/../y//z/."}

func c10Paths(r *vfRand) []string {
	base := []string{"", ".", "..", "/", "//", "a", "a/", "a/b", "/a/b", "/a//b/", "a/./b/../c", "../..", "../../etc/passwd", "/../..", "/../../etc", "a/../../..", "./../x", "/a/b/../../../c",
		"....", ".../x", "a/..b", "\xff\xfe/bin", "nul\x00in/side", "sp ace/new\nline", strings.Repeat("d/", 300) + "f", strings.Repeat("../", 50) + "up", "/trailing/dots/..", "/trailing/dot/.",
		// names that mean something to a shell and nothing to SFTP
		"~", "~/sub", "~x", "a/~", "/~", "~/../up", "$HOME", "*", "-", "%2e%2e/x", "c:\\dir", "a\\b"}
	for i := 0; i < 6; i++ {
		var parts []string
		for j := 1 + r.Intn(6); j > 0; j-- {
			parts = append(parts, vfPick(r, []string{"..", ".", "", "x", "y", "zz", "..", "a b"}))
		}
		p := strings.Join(parts, "/")
		if r.Bool() {
			p = "/" + p
		}
		base = append(base, p)
	}
	return base
}

func c10Shape(p string) string {
	switch {
	case p == "":
		return "empty"
	case strings.Contains(p, "\xff") || strings.Contains(p, "\x00"):
		return "non-utf8/nul"
	case len(p) > 200:
		return "long"
	case strings.Contains(p, ".."):
		if path.IsAbs(p) {
			return "abs-dotdot"
		}
		return "rel-dotdot"
	case strings.Contains(p, "//") || strings.HasSuffix(p, "/"):
		return "slashes"
	case path.IsAbs(p):
		return "abs"
	}
	return "rel"
}

func c10Want(start, p string) string {
	cs := start
	if !path.IsAbs(cs) {
		cs = path.Join("/", cs)
	}
	cs = path.Clean(cs)
	if path.IsAbs(p) {
		return path.Clean(p)
	}
	return path.Join(cs, p)
}

func c10Run(u *vfUnit) {
	nf := 50
	if u.Tier == vfThorough {
		nf = 200
	}
	if u.Index < nf {
		c10Forward(u)
	} else {
		c10Backward(u, u.Index-nf)
	}
}

func c10Forward(u *vfUnit) {
	r := u.Rng
	start := c10Starts[u.Index%5]
	optI := (u.Index / 5) % 5
	opt := []vfHandlerOpt{{}, {OpenFile: true}, {CmdAll: true}, {ListAll: true}, {Legacy: true}}[optI]
	optName := []string{"none", "OpenFile", "PosixRename+StatVFS", "Lstat+RealPath+Readlink", "legacyRealPath"}[optI]
	store := vfNewStore()
	// every name exists: handlers answer from a permissive store
	store.OpenErr = func(m, p string) error { return nil }
	// handlers that work with their own derivation of the request (Request.WithContext) see the same request
	store.ViaWithContext = (u.Index/25)%2 == 1
	rs, err := vfRawConnect(vfSrvCfg{Kind: vfRS, StartDir: start, Alloc: u.Index%2 == 0, H: store.Handlers(opt)}, vfPipeOpts{}, true)
	if err != nil {
		u.Inconclusive("connect: %v", err)
		return
	}
	label := fmt.Sprintf("start=%q/ifaces=%s", start, optName)
	id := uint32(100)
	paths := c10Paths(r)
	attrs := vfAttrs{Flags: rfAttrSize | rfAttrPerm | rfAttrTime, Size: 12345, Perm: 0o100640, Atime: 111, Mtime: 222}
	attrBytes := func(a vfAttrs) []byte {
		w := &rfW{}
		w.attrs(a)
		return w.b[4:] // the handler sees the bytes after the flags word
	}
	type expect struct {
		iface, method string
		path, target  string
		flags         uint32
		attrs         []byte
		verbatimPath  bool
		checkAttrs    bool
		none          bool // no handler call expected
	}
	send := func(p vfPkt, ex []expect, what string) {
		id++
		p.ID = id
		store.ResetCalls()
		resp, err := rs.R.Phase(60*time.Second, p)
		u.Count("forward_requests", 1)
		w := map[string]any{"config": label, "request": p.String()}
		if err != nil || len(resp) != 1 || resp[0].ID != id {
			u.Violation("forward-no-reply:"+rfTypeName(p.Type), fmt.Sprintf("%s: %s: %v %v", label, p, resp, err), w)
			return
		}
		calls := store.Calls()
		// object-level activity (stat listers etc.) is not a handler call; Calls() only has handler entries
		if len(ex) == 1 && ex[0].none {
			if len(calls) != 0 {
				u.Violation("forward-unexpected-call:"+what, fmt.Sprintf("%s: %s caused handler calls %v, none expected", label, p, calls), w)
			}
			return
		}
		if len(calls) != len(ex) {
			u.Violation(fmt.Sprintf("forward-call-count-%d:%s", len(calls), what), fmt.Sprintf("%s: %s: handlers were called %d times (%v), expected %d", label, p, len(calls), calls, len(ex)), w)
			return
		}
		for i, e := range ex {
			c := calls[i]
			u.Count("handler_calls_checked", 1)
			var probs []string
			if c.Iface != e.iface {
				probs = append(probs, fmt.Sprintf("handler %s, want %s", c.Iface, e.iface))
			}
			if c.Method != e.method {
				probs = append(probs, fmt.Sprintf("method %q, want %q", c.Method, e.method))
			}
			if c.Path != e.path {
				probs = append(probs, fmt.Sprintf("path %q, want %q", vfTrim(c.Path, 80), vfTrim(e.path, 80)))
			}
			if !e.verbatimPath && c.Iface != "RealPath" && (!path.IsAbs(c.Path) || path.Clean(c.Path) != c.Path) {
				probs = append(probs, fmt.Sprintf("path %q is not absolute and clean", vfTrim(c.Path, 80)))
			}
			if c.Target != e.target {
				probs = append(probs, fmt.Sprintf("target %q, want %q", vfTrim(c.Target, 80), vfTrim(e.target, 80)))
			}
			if e.target != "" && (!path.IsAbs(c.Target) || path.Clean(c.Target) != c.Target) {
				probs = append(probs, fmt.Sprintf("target %q is not absolute and clean", vfTrim(c.Target, 80)))
			}
			if c.Flags != e.flags {
				probs = append(probs, fmt.Sprintf("flags %#x, want %#x", c.Flags, e.flags))
			}
			if e.checkAttrs && string(c.Attrs) != string(e.attrs) {
				probs = append(probs, fmt.Sprintf("attrs %x, want %x", c.Attrs, e.attrs))
			}
			if e.checkAttrs && c.AttrView != "" {
				// the accessors a handler uses to read the attributes must show what was sent
				probs = append(probs, "accessors: "+c.AttrView)
			}
			if len(probs) > 0 {
				u.Violation("forward-call-mismatch:"+what+":"+strings.SplitN(probs[0], " ", 2)[0], fmt.Sprintf("%s: %s -> %s: %s", label, p, c, strings.Join(probs, "; ")), w)
			}
		}
	}
	for _, p := range paths {
		u.SetAdd("path_shapes", c10Shape(p))
		u.Eval(fmt.Sprintf("fwd/%s/%s/%s", optName, c10Shape(p), start))
		q := c10Want(start, p)
		p2 := vfPick(r, paths)
		q2 := c10Want(start, p2)
		// path commands
		send(vfPkt{Type: rfMkdir, Path: p}, []expect{{iface: "FileCmd", method: "Mkdir", path: q}}, "MKDIR")
		send(vfPkt{Type: rfRmdir, Path: p}, []expect{{iface: "FileCmd", method: "Rmdir", path: q}}, "RMDIR")
		send(vfPkt{Type: rfRemove, Path: p}, []expect{{iface: "FileCmd", method: "Remove", path: q}}, "REMOVE")
		send(vfPkt{Type: rfRename, Path: p, Path2: p2}, []expect{{iface: "FileCmd", method: "Rename", path: q, target: q2}}, "RENAME")
		send(vfPkt{Type: rfSetstat, Path: p, Attrs: attrs}, []expect{{iface: "FileCmd", method: "Setstat", path: q, flags: attrs.Flags, attrs: attrBytes(attrs), checkAttrs: true}}, "SETSTAT")
		// every subset of the attribute flags, with and without extended pairs
		sub := vfAttrs{Flags: uint32(len(p)+int(id)) % 16, Size: 77, UID: 1001, GID: 1002, Perm: 0o100604, Atime: 5, Mtime: 6}
		if (len(p)+int(id))%3 != 0 {
			sub.Flags |= rfAttrExt
			sub.Ext = [][2]string{{"user.a@example.com", "1"}, {"b", ""}}
		}
		send(vfPkt{Type: rfSetstat, Path: p, Attrs: sub}, []expect{{iface: "FileCmd", method: "Setstat", path: q, flags: sub.Flags, attrs: attrBytes(sub), checkAttrs: true}}, "SETSTAT-subset")
		// symlink: first wire string is the target text (verbatim), second the link path
		send(vfPkt{Type: rfSymlink, Path: p, Path2: p2}, []expect{{iface: "FileCmd", method: "Symlink", path: p, target: q2, verbatimPath: true}}, "SYMLINK")
		send(vfPkt{Type: rfExtended, Ext: "hardlink@openssh.com", Path: p, Path2: p2}, []expect{{iface: "FileCmd", method: "Link", path: q, target: q2}}, "hardlink")
		if opt.CmdAll {
			send(vfPkt{Type: rfExtended, Ext: "posix-rename@openssh.com", Path: p, Path2: p2}, []expect{{iface: "PosixRename", method: "PosixRename", path: q, target: q2}}, "posix-rename")
			send(vfPkt{Type: rfExtended, Ext: "statvfs@openssh.com", Path: p}, []expect{{iface: "StatVFS", method: "StatVFS", path: q}}, "statvfs")
		} else {
			send(vfPkt{Type: rfExtended, Ext: "posix-rename@openssh.com", Path: p, Path2: p2}, []expect{{iface: "FileCmd", method: "Rename", path: q, target: q2}}, "posix-rename-fallback")
			send(vfPkt{Type: rfExtended, Ext: "statvfs@openssh.com", Path: p}, []expect{{none: true}}, "statvfs-unsupported")
		}
		// listing family
		send(vfPkt{Type: rfStat, Path: p}, []expect{{iface: "FileList", method: "Stat", path: q}}, "STAT")
		if opt.ListAll {
			send(vfPkt{Type: rfLstat, Path: p}, []expect{{iface: "Lstat", method: "Lstat", path: q}}, "LSTAT")
			send(vfPkt{Type: rfReadlink, Path: p}, []expect{{iface: "Readlink", method: "", path: q}}, "READLINK")
			send(vfPkt{Type: rfRealpath, Path: p}, []expect{{iface: "RealPath", method: "", path: p, verbatimPath: true}}, "REALPATH")
		} else {
			send(vfPkt{Type: rfLstat, Path: p}, []expect{{iface: "FileList", method: "Stat", path: q}}, "LSTAT-fallback")
			send(vfPkt{Type: rfReadlink, Path: p}, []expect{{iface: "FileList", method: "Readlink", path: q}}, "READLINK-fallback")
			if opt.Legacy {
				send(vfPkt{Type: rfRealpath, Path: p}, []expect{{iface: "RealPath", method: "", path: p, verbatimPath: true}}, "REALPATH-legacy")
			} else {
				id++
				resp, err := rs.R.Phase(60*time.Second, vfPkt{Type: rfRealpath, ID: id, Path: p})
				u.Count("forward_requests", 1)
				if err != nil || len(resp) != 1 || resp[0].Type != rfName || len(resp[0].Names) != 1 || resp[0].Names[0].Name != q {
					u.Violation("realpath-default", fmt.Sprintf("%s: REALPATH %q answered %v, want the clean absolute path %q", label, vfTrim(p, 80), resp, vfTrim(q, 80)), nil)
				}
			}
		}
		// opens: which handler, which flags
		for _, pf := range []uint32{rfRead_, rfWrite_, rfRead_ | rfWrite_, rfWrite_ | rfCreat_ | rfTrunc_, rfRead_ | rfAppend_, rfRead_ | rfCreat_ | rfExcl_, rfAppend_} {
			var ex expect
			fl := newFileOpenFlags(pf)
			writeish := fl.Write || fl.Append || fl.Creat || fl.Trunc
			switch {
			case writeish && fl.Read && opt.OpenFile:
				ex = expect{iface: "OpenFile", method: "Open", path: q, flags: pf}
			case writeish:
				ex = expect{iface: "FilePut", method: "Put", path: q, flags: pf}
			default:
				ex = expect{iface: "FileGet", method: "Get", path: q, flags: pf}
			}
			oa := vfAttrs{Flags: rfAttrPerm, Perm: 0o600}
			ex.attrs, ex.checkAttrs = attrBytes(oa), true
			send(vfPkt{Type: rfOpen, Path: p, Pflags: pf, Attrs: oa}, []expect{ex}, fmt.Sprintf("OPEN/pf=%#x", pf))
		}
		send(vfPkt{Type: rfOpendir, Path: p}, []expect{{iface: "FileList", method: "List", path: q}}, "OPENDIR")
	}
	// handle-bound follow-ups: FSTAT / FSETSTAT carry the path of the open
	store.Put("/hb", []byte("0123456789"))
	id++
	resp, err := rs.R.Phase(60*time.Second, vfPkt{Type: rfOpen, ID: id, Path: "/hb", Pflags: rfRead_ | rfWrite_})
	if err == nil && len(resp) == 1 && resp[0].Type == rfHandle {
		h := resp[0].Handle
		send(vfPkt{Type: rfFstat, Handle: h}, []expect{{iface: "FileList", method: "Stat", path: "/hb"}}, "FSTAT")
		send(vfPkt{Type: rfFsetstat, Handle: h, Attrs: attrs}, []expect{{iface: "FileCmd", method: "Setstat", path: "/hb", flags: attrs.Flags, attrs: attrBytes(attrs), checkAttrs: true}}, "FSETSTAT")
	}
	if msg := rs.End(60 * time.Second); msg != "" {
		u.Violation("serve-end", msg, nil)
	}
	u.Sample(map[string]any{"config": label, "paths": len(paths), "example": fmt.Sprintf("RENAME %q -> %q must reach Filecmd as (%q, %q)", "a/../../..", "/a//b/", c10Want(start, "a/../../.."), c10Want(start, "/a//b/"))})
}

type c10Err struct {
	name string
	err  error
	code uint32
	text string // must be contained in the message (FAILURE only)
}

type c10Custom struct{ s string }

func (e c10Custom) Error() string { return e.s }

func c10Errors() []c10Err {
	var out []c10Err
	for code, fe := range map[uint32]fxerr{rfEOF: ErrSSHFxEOF, rfNoSuchFile: ErrSSHFxNoSuchFile, rfPermDenied: ErrSSHFxPermissionDenied, rfFailure: ErrSSHFxFailure, rfBadMessage: ErrSSHFxBadMessage, rfNoConn: ErrSSHFxNoConnection, rfConnLost: ErrSSHFxConnectionLost, rfUnsupported: ErrSSHFxOpUnsupported} {
		out = append(out, c10Err{fmt.Sprintf("fxerr(%d)", code), fe, code, ""})
	}
	wrap := func(name string, base error, code uint32) {
		out = append(out, c10Err{name, base, code, ""})
		out = append(out, c10Err{"PathError{" + name + "}", &os.PathError{Op: "open", Path: "/p", Err: base}, code, ""})
		out = append(out, c10Err{"LinkError{" + name + "}", &os.LinkError{Op: "link", Old: "/a", New: "/b", Err: base}, code, ""})
		out = append(out, c10Err{"SyscallError{" + name + "}", &os.SyscallError{Syscall: "stat", Err: base}, code, ""})
	}
	wrap("os.ErrNotExist", os.ErrNotExist, rfNoSuchFile)
	wrap("syscall.ENOENT", syscall.ENOENT, rfNoSuchFile)
	wrap("os.ErrPermission", os.ErrPermission, rfPermDenied)
	wrap("syscall.EACCES", syscall.EACCES, rfPermDenied)
	wrap("syscall.EPERM", syscall.EPERM, rfPermDenied)
	wrap("io.EOF", io.EOF, rfEOF) // bare and inside os's wrappers (a handler reporting the end of a file as a *PathError)
	for i, e := range []error{errors.New("plain failure text 4711"), c10Custom{"custom error type #42"}, syscall.ENOTDIR, syscall.EEXIST, &os.PathError{Op: "x", Path: "/q", Err: syscall.EISDIR}, fmt.Errorf("wrapped: %w", errors.New("inner cause 9")),
		// errors that merely resemble the standard ones: an interrupted read is a failure, not the end of the file
		io.ErrUnexpectedEOF, fmt.Errorf("backend dropped: %w", io.ErrUnexpectedEOF), &os.PathError{Op: "read", Path: "/q", Err: io.ErrUnexpectedEOF}, io.ErrClosedPipe, io.ErrShortWrite, os.ErrClosed, os.ErrExist, os.ErrInvalid, syscall.EIO, fmt.Errorf("offline: %w", syscall.EIO)} {
		out = append(out, c10Err{fmt.Sprintf("other-%d", i), e, rfFailure, e.Error()})
	}
	// status codes beyond one byte are codes of their own
	for _, code := range []uint32{256, 257, 258, 0x10004, 0xFFFFFF00, 0x80000001} {
		out = append(out, c10Err{fmt.Sprintf("fxerr(%d)", code), fxerr(code), code, ""})
	}
	// every errno of the platform: only "no such file" and the two permission errnos have a status of their own,
	// any other one is a failure that carries its text (the bare values; the wrappers are exercised above)
	for n := 1; n <= 133; n++ {
		e := syscall.Errno(n)
		if e == syscall.ENOENT || e == syscall.EACCES || e == syscall.EPERM {
			continue
		}
		out = append(out, c10Err{fmt.Sprintf("errno-%d", n), e, rfFailure, e.Error()})
	}
	// a failure whose text happens to read like another outcome
	for i, txt := range []string{"EOF", "end of file", "file does not exist", "permission denied", "no such file or directory", "OK", ""} {
		out = append(out, c10Err{fmt.Sprintf("lookalike-text-%d", i), errors.New(txt), rfFailure, txt})
	}
	return out
}

func c10Backward(u *vfUnit, part int) {
	errs := c10Errors()
	store := vfNewStore()
	store.Put("/file", vfPattern(1, 0, 100))
	store.Mkdir("/dir")
	store.Put("/dir/x", []byte("x"))
	var cur error
	var where string
	store.OpenErr = func(m, p string) error {
		if strings.HasPrefix(where, "open") {
			return cur
		}
		return nil
	}
	store.CmdErr = func(m, p string) error {
		if where == "cmd" {
			return cur
		}
		return nil
	}
	store.ListErr = func(m, p string) error {
		if where == "list" {
			return cur
		}
		return nil
	}
	store.ListAtErr = func(p string) error {
		if where == "listat" {
			return cur
		}
		return nil
	}
	store.FailAt = func(p string, off int64, n int, write bool) error {
		if where == "object" {
			return cur
		}
		return nil
	}
	store.CloseErr = func(p string) error {
		if where == "close" {
			return cur
		}
		return nil
	}
	// every other part: handlers that work with their own derivation of the request (Request.WithContext)
	store.ViaWithContext = (part/2)%2 == 1
	rs, err := vfRawConnect(vfSrvCfg{Kind: vfRS, Alloc: part%2 == 0, H: store.Handlers(vfHandlerOpt{OpenFile: true, CmdAll: true, ListAll: true})}, vfPipeOpts{}, true)
	if err != nil {
		u.Inconclusive("connect: %v", err)
		return
	}
	// a real client on a second connection for the client-side classification
	sess, err := vfConnect(vfSrvCfg{Kind: vfRS, H: store.Handlers(vfHandlerOpt{OpenFile: true, CmdAll: true, ListAll: true})}, vfPipeOpts{})
	if err != nil {
		u.Inconclusive("connect: %v", err)
		return
	}
	id := uint32(10)
	// handles for object-level failures
	open := func(p vfPkt) string {
		id++
		p.ID = id
		r, err := rs.R.Phase(60*time.Second, p)
		if err != nil || len(r) != 1 || r[0].Type != rfHandle {
			return ""
		}
		return r[0].Handle
	}
	hFile := open(vfPkt{Type: rfOpen, Path: "/file", Pflags: rfRead_ | rfWrite_})
	type probe struct {
		where string
		name  string
		pkt   vfPkt
	}
	probes := []probe{
		{"open-get", "Fileread", vfPkt{Type: rfOpen, Path: "/file", Pflags: rfRead_}},
		{"open-put", "Filewrite", vfPkt{Type: rfOpen, Path: "/file", Pflags: rfWrite_}},
		{"open-rw", "OpenFile", vfPkt{Type: rfOpen, Path: "/file", Pflags: rfRead_ | rfWrite_}},
		{"cmd", "Filecmd/Mkdir", vfPkt{Type: rfMkdir, Path: "/newdir"}},
		{"cmd", "Filecmd/Rename", vfPkt{Type: rfRename, Path: "/file", Path2: "/file2"}},
		{"cmd", "Filecmd/Setstat", vfPkt{Type: rfSetstat, Path: "/file", Attrs: vfAttrs{Flags: rfAttrPerm, Perm: 0o600}}},
		{"cmd", "Filecmd/Fsetstat", vfPkt{Type: rfFsetstat, Handle: hFile, Attrs: vfAttrs{Flags: rfAttrPerm, Perm: 0o600}}},
		{"cmd", "PosixRename", vfPkt{Type: rfExtended, Ext: "posix-rename@openssh.com", Path: "/file", Path2: "/f3"}},
		{"cmd", "StatVFS", vfPkt{Type: rfExtended, Ext: "statvfs@openssh.com", Path: "/"}},
		{"cmd", "Filecmd/Link", vfPkt{Type: rfExtended, Ext: "hardlink@openssh.com", Path: "/file", Path2: "/hl"}},
		{"list", "Filelist/Stat", vfPkt{Type: rfStat, Path: "/file"}},
		{"list", "Lstat", vfPkt{Type: rfLstat, Path: "/file"}},
		{"list", "Filelist/List", vfPkt{Type: rfOpendir, Path: "/dir"}},
		{"list", "Filelist/Fstat", vfPkt{Type: rfFstat, Handle: hFile}},
		{"list", "RealPath", vfPkt{Type: rfRealpath, Path: "x"}},
		{"list", "Readlink", vfPkt{Type: rfReadlink, Path: "/file"}},
		// the handler call succeeds, the lister it returned fails: the error is the handler's all the same
		{"listat", "Stat-lister.ListAt", vfPkt{Type: rfStat, Path: "/file"}},
		{"listat", "Lstat-lister.ListAt", vfPkt{Type: rfLstat, Path: "/file"}},
		{"listat", "Fstat-lister.ListAt", vfPkt{Type: rfFstat, Handle: hFile}},
		{"object", "ReadAt", vfPkt{Type: rfRead, Handle: hFile, Off: 0, Len: 10}},
		{"object", "WriteAt", vfPkt{Type: rfWrite, Handle: hFile, Off: 0, Data: []byte("zz")}},
	}
	for ei, e := range errs {
		if ei%2 != part%2 && u.Tier == vfQuick && false {
			continue
		}
		for _, pr := range probes {
			if pr.where == "listat" && e.code == rfEOF {
				// io.EOF from ListAt is the end-of-list signal of the ListerAt contract: "no entry" (not-exist), not an error of the handler's
				continue
			}
			cur, where = e.err, pr.where
			id++
			p := pr.pkt
			p.ID = id
			calls0 := len(store.Calls())
			resp, err := rs.R.Phase(60*time.Second, p)
			where = ""
			if pr.where != "object" {
				// whatever the handler answers, the request is forwarded to exactly one handler entry point
				if cs := store.Calls()[calls0:]; len(cs) != 1 {
					u.Violation(fmt.Sprintf("backward-call-count-%d:%s", len(cs), pr.name), fmt.Sprintf("%s returned %s: the request %s led to %d handler calls %v", pr.name, e.name, p, len(cs), cs), map[string]any{"handler": pr.name, "returned_error": fmt.Sprintf("%T %v", e.err, e.err)})
				}
			}
			u.Eval(fmt.Sprintf("bwd/%s/%s", pr.name, e.name))
			u.Count("error_values_checked", 1)
			w := map[string]any{"handler": pr.name, "returned_error": fmt.Sprintf("%T %v", e.err, e.err), "request": p.String()}
			if err != nil || len(resp) != 1 {
				u.Violation("backward-no-reply:"+pr.name, fmt.Sprintf("%s returned %s: %v %v", pr.name, e.name, resp, err), w)
				continue
			}
			got := resp[0]
			wantCode := e.code
			if got.Type != rfStatus {
				u.Violation("backward-not-status:"+pr.name+":"+e.name, fmt.Sprintf("%s returned error %s (%v) but the client got %s", pr.name, e.name, e.err, got), w)
				continue
			}
			if got.Code != wantCode {
				u.Violation(fmt.Sprintf("backward-code:%s:got=%d:want=%d", e.name, got.Code, wantCode), fmt.Sprintf("%s returned %s (%T: %v): status code %d on the wire, expected %d", pr.name, e.name, e.err, e.err, got.Code, wantCode), w)
			}
			if e.text != "" && !strings.Contains(got.Msg, e.text) {
				u.Violation("backward-text:"+e.name, fmt.Sprintf("%s returned %v: the failure text on the wire is %q", pr.name, e.err, got.Msg), w)
			}
			// close whatever a successful open may have produced (the store opened nothing on error)
		}
		// the objects handlers returned: what their Close reports is the answer to the CLOSE request, for every
		// kind of handle (reader, writer, reader+writer, lister)
		for _, op := range []vfPkt{{Type: rfOpen, Path: "/file", Pflags: rfRead_}, {Type: rfOpen, Path: "/file", Pflags: rfWrite_}, {Type: rfOpen, Path: "/file", Pflags: rfRead_ | rfWrite_}, {Type: rfOpendir, Path: "/dir"}} {
			h := open(op)
			if h == "" {
				u.Violation("backward-open-failed", fmt.Sprintf("%s not answered with a handle", op), nil)
				continue
			}
			cur, where = e.err, "close"
			id++
			resp, err := rs.R.Phase(60*time.Second, vfPkt{Type: rfClose, ID: id, Handle: h})
			where = ""
			name := fmt.Sprintf("Close-of-object(%s pflags=%#x)", []string{"OPEN", "OPENDIR"}[vfB2i(op.Type == rfOpendir)], op.Pflags)
			u.Eval(fmt.Sprintf("bwd/%s/%s", name, e.name))
			u.Count("error_values_checked", 1)
			w := map[string]any{"handler": name, "returned_error": fmt.Sprintf("%T %v", e.err, e.err)}
			if err != nil || len(resp) != 1 || resp[0].Type != rfStatus {
				u.Violation("backward-no-reply:"+name, fmt.Sprintf("%s returned %s: %v %v", name, e.name, resp, err), w)
				continue
			}
			if got := resp[0]; got.Code != e.code {
				u.Violation(fmt.Sprintf("backward-code:%s:got=%d:want=%d", e.name, got.Code, e.code), fmt.Sprintf("%s returned %s (%T: %v): status code %d on the wire, expected %d", name, e.name, e.err, e.err, got.Code, e.code), w)
			} else if e.text != "" && !strings.Contains(got.Msg, e.text) {
				u.Violation("backward-text:"+e.name, fmt.Sprintf("%s returned %v: the failure text on the wire is %q", name, e.err, got.Msg), w)
			}
		}
		// through the real client: classification with the standard errors
		cur, where = e.err, "cmd"
		cerr := sess.C.Mkdir("/via-client")
		where = ""
		ok := true
		switch e.code {
		case rfNoSuchFile:
			ok = errors.Is(cerr, os.ErrNotExist)
		case rfPermDenied:
			ok = errors.Is(cerr, os.ErrPermission)
		case rfEOF:
			ok = cerr == io.EOF
		case rfFailure:
			// a failure stays a failure on the client's side, with its text (never one of the standard errors)
			var se *StatusError
			ok = errors.As(cerr, &se) && se.Code == rfFailure && (e.text == "" || strings.Contains(cerr.Error(), e.text)) &&
				cerr != io.EOF && !errors.Is(cerr, os.ErrNotExist) && !errors.Is(cerr, os.ErrPermission)
		default:
			var se *StatusError
			ok = errors.As(cerr, &se) && se.Code == e.code
		}
		if !ok {
			u.Violation("backward-client-classification:"+e.name, fmt.Sprintf("handler returned %s (%v); Client.Mkdir reported %v", e.name, e.err, cerr), nil)
		}
	}
	// data direction: what handlers return reaches the client as given
	cur = nil
	id++
	if r, err := rs.R.Phase(60*time.Second, vfPkt{Type: rfRead, ID: id, Handle: hFile, Off: 10, Len: 50}); err != nil || len(r) != 1 || r[0].Type != rfData || string(r[0].Data) != string(vfPattern(1, 10, 50)) {
		u.Violation("backward-data", fmt.Sprintf("READ of handler data answered %v %v", r, err), nil)
	}
	// reads that reach past the end of the file: the handler returns (n>0, io.EOF) and the bytes must arrive;
	// only a read that starts at or beyond the end is answered with EOF. On every kind of readable handle.
	for _, pf := range []uint32{rfRead_, rfRead_ | rfWrite_} {
		h := open(vfPkt{Type: rfOpen, Path: "/file", Pflags: pf})
		for _, c := range []struct{ off, l, want int }{{90, 50, 10}, {0, 200, 100}, {99, 1, 1}, {99, 2, 1}, {100, 10, -1}, {5000, 10, -1}, {50, 50, 50},
			// offsets that differ from an offset inside the file only above bit 31: the handler object sees the offset of the request
			{1 << 32, 10, -1}, {1<<32 + 90, 50, -1}, {1<<40 + 3, 1, -1}, {1<<63 - 100, 10, -1}} {
			id++
			r, err := rs.R.Phase(60*time.Second, vfPkt{Type: rfRead, ID: id, Handle: h, Off: uint64(c.off), Len: uint32(c.l)})
			u.Eval(fmt.Sprintf("bwd/tail-read/%#x/%d/%d", pf, c.off, c.l))
			ok := err == nil && len(r) == 1
			if ok && c.want >= 0 {
				ok = r[0].Type == rfData && string(r[0].Data) == string(vfPattern(1, int64(c.off), c.want))
			} else if ok {
				ok = r[0].Type == rfStatus && r[0].Code == rfEOF
			}
			if !ok {
				u.Violation(fmt.Sprintf("backward-tail-read:pflags=%#x", pf), fmt.Sprintf("READ off=%d len=%d on a handle opened with pflags %#x of a 100-byte file answered %v %v; the handler returned %d bytes", c.off, c.l, pf, r, err, c.want), nil)
			}
		}
		id++
		rs.R.Phase(60*time.Second, vfPkt{Type: rfClose, ID: id, Handle: h})
	}
	id++
	if r, err := rs.R.Phase(60*time.Second, vfPkt{Type: rfStat, ID: id, Path: "/file"}); err != nil || len(r) != 1 || r[0].Type != rfAttrs || r[0].Attrs.Size != 100 || r[0].Attrs.Perm != 0o100644 || r[0].Attrs.Mtime != 1500000000 {
		u.Violation("backward-attrs", fmt.Sprintf("STAT of a handler FileInfo answered %v %v", r, err), nil)
	}
	id++
	if r, err := rs.R.Phase(60*time.Second, vfPkt{Type: rfExtended, ID: id, Ext: "statvfs@openssh.com", Path: "/"}); err != nil || len(r) != 1 || r[0].VFS == nil || *r[0].VFS != (vfStatVFS{4096, 4096, 1000, 500, 400, 99, 88, 77, 5, 1, 255}) {
		u.Violation("backward-statvfs", fmt.Sprintf("statvfs of the handler's StatVFS answered %v %v", r, err), nil)
	}
	sess.Close()
	if msg := rs.End(60 * time.Second); msg != "" {
		u.Violation("serve-end", msg, nil)
	}
	c10Listing(u)
	u.Sample(map[string]any{"error_values": len(errs), "entry_points": len(probes), "example": "Filecmd returns &os.LinkError{Err: EACCES} -> STATUS PERMISSION_DENIED expected"})
}

// c10ShortLister hands out its entries `per` at a time (nil error until the end) and records the offsets it is asked for.
type c10ShortLister struct {
	ents []os.FileInfo
	per  int
	mu   sync.Mutex
	offs []int64
}

func (l *c10ShortLister) ListAt(out []os.FileInfo, off int64) (int, error) {
	l.mu.Lock()
	l.offs = append(l.offs, off)
	l.mu.Unlock()
	if off >= int64(len(l.ents)) {
		return 0, io.EOF
	}
	n := copy(out[:min(l.per, len(out))], l.ents[off:])
	return n, nil
}

type c10ListHandler struct{ l *c10ShortLister }

func (h c10ListHandler) Filelist(r *Request) (ListerAt, error) { return h.l, nil }

// c10Listing: a listing reaches the client as the lister gave it — every entry once, in order,
// and the lister is asked for consecutive offsets (each call continues where the entries it
// returned so far end), whatever batch sizes it chooses.
func c10Listing(u *vfUnit) {
	for _, per := range []int{1, 7, 99, 100, 1000} {
		for _, n := range []int{0, 1, 25, 100, 101, 230} {
			l := &c10ShortLister{per: per}
			for i := 0; i < n; i++ {
				l.ents = append(l.ents, c06InfoLike(fmt.Sprintf("entry-%04d", i), int64(i)))
			}
			sess, err := vfConnect(vfSrvCfg{Kind: vfRS, H: Handlers{FileList: c10ListHandler{l}}}, vfPipeOpts{})
			if err != nil {
				u.Inconclusive("connect: %v", err)
				return
			}
			ents, err := sess.C.ReadDir("/")
			u.Eval(fmt.Sprintf("bwd/listing/%d/%d", per, n))
			u.Count("listings_checked", 1)
			ok := err == nil && len(ents) == n
			for i := 0; ok && i < n; i++ {
				ok = ents[i].Name() == l.ents[i].Name() && ents[i].Size() == l.ents[i].Size()
			}
			l.mu.Lock()
			offs := append([]int64(nil), l.offs...)
			l.mu.Unlock()
			next := int64(0)
			for _, o := range offs {
				if o != next {
					ok = false
				}
				next = o + int64(min(per, max(0, n-int(o)), 100))
			}
			if !ok {
				u.Violation("backward-listing", fmt.Sprintf("lister with %d entries handing out %d per call: ReadDir returned %d entries (err %v), ListAt was called with offsets %v", n, per, len(ents), err, offs), nil)
			}
			sess.Close()
		}
	}
	// a lister that has nothing to say (0 entries, io.EOF) behind every request kind that uses one, with handlers
	// that lack the optional Lstat/RealPath/Readlink interfaces: the answer is "no such file" (end of list for READDIR)
	{
		st := vfNewStore()
		st.Put("/f", []byte("x"))
		st.Mkdir("/d")
		empty := false
		st.ListAtErr = func(p string) error {
			if empty {
				return io.EOF
			}
			return nil
		}
		rs, err := vfRawConnect(vfSrvCfg{Kind: vfRS, H: st.Handlers(vfHandlerOpt{OpenFile: true})}, vfPipeOpts{}, true)
		if err != nil {
			u.Inconclusive("connect: %v", err)
			return
		}
		hr, _ := rs.R.Phase(60*time.Second, vfPkt{Type: rfOpen, ID: 1, Path: "/f", Pflags: rfRead_}, vfPkt{Type: rfOpendir, ID: 2, Path: "/d"})
		empty = true
		if len(hr) == 2 && hr[0].Type == rfHandle && hr[1].Type == rfHandle {
			for i, q := range []vfPkt{{Type: rfReadlink, Path: "/f"}, {Type: rfStat, Path: "/f"}, {Type: rfLstat, Path: "/f"}, {Type: rfFstat, Handle: hr[0].Handle}, {Type: rfReaddir, Handle: hr[1].Handle}, {Type: rfRealpath, Path: "/f"}} {
				q.ID = uint32(10 + i)
				r, err := rs.R.Phase(60*time.Second, q)
				u.Count("empty_lister_requests", 1)
				want := uint32(rfNoSuchFile)
				if q.Type == rfReaddir {
					want = rfEOF
				}
				if q.Type == rfRealpath {
					continue // answered without a lister
				}
				if err != nil || len(r) != 1 || r[0].Type != rfStatus || r[0].Code != want {
					u.Violation("backward-empty-lister:"+rfTypeName(q.Type), fmt.Sprintf("%s with a lister that returns (0, io.EOF) answered %v %v, expected STATUS %d", q, r, err, want), nil)
				}
			}
		}
		empty = false
		if msg := rs.End(60 * time.Second); msg != "" {
			u.Violation("serve-end", msg, nil)
		}
	}
	// attributes as given: owner from the callbacks (over a Stat_t of another owner) together with extended attributes
	l := &c10ShortLister{per: 10, ents: []os.FileInfo{c10OwnedInfo{c10Info{"both", 77}, 5001, 5002}}}
	sess, err := vfConnect(vfSrvCfg{Kind: vfRS, H: Handlers{FileList: c10ListHandler{l}}}, vfPipeOpts{})
	if err != nil {
		u.Inconclusive("connect: %v", err)
		return
	}
	check := func(what string, fi os.FileInfo, err error) {
		u.Count("attribute_sets_checked", 1)
		if err != nil {
			u.Violation("backward-attrs-owner", fmt.Sprintf("%s: %v", what, err), nil)
			return
		}
		st, _ := fi.Sys().(*FileStat)
		if st == nil || st.UID != 5001 || st.GID != 5002 || len(st.Extended) != 2 || fi.Size() != 77 {
			u.Violation("backward-attrs-owner", fmt.Sprintf("%s of a handler FileInfo with Uid()/Gid() 5001:5002 (over a Stat_t owned by 998:997) and 2 extended attributes arrived as %+v", what, st), nil)
		}
	}
	fi, err := sess.C.Stat("/both")
	check("Stat", fi, err)
	fi, err = sess.C.Lstat("/both")
	check("Lstat", fi, err)
	if ents, err := sess.C.ReadDir("/"); err != nil || len(ents) != 1 {
		u.Violation("backward-attrs-owner", fmt.Sprintf("ReadDir: %d entries, %v", len(ents), err), nil)
	} else {
		check("ReadDir entry", ents[0], nil)
	}
	sess.Close()
}

// c10OwnedInfo: a FileInfo that wraps a local file's Stat_t but reports another owner through
// FileInfoUidGid (documented precedence: the callbacks) and carries extended attributes.
type c10OwnedInfo struct {
	c10Info
	uid, gid uint32
}

func (i c10OwnedInfo) Uid() uint32 { return i.uid }
func (i c10OwnedInfo) Gid() uint32 { return i.gid }
func (i c10OwnedInfo) Sys() any    { return &syscall.Stat_t{Uid: 998, Gid: 997, Nlink: 2} }
func (i c10OwnedInfo) Extended() []StatExtended {
	return []StatExtended{{"user.a", "1"}, {"user.b", ""}}
}

type c10Info struct {
	name string
	size int64
}

func (i c10Info) Name() string       { return i.name }
func (i c10Info) Size() int64        { return i.size }
func (i c10Info) Mode() os.FileMode  { return 0o644 }
func (i c10Info) ModTime() time.Time { return time.Unix(1500000000, 0) }
func (i c10Info) IsDir() bool        { return false }
func (i c10Info) Sys() any           { return nil }

func c06InfoLike(name string, size int64) os.FileInfo { return c10Info{name, size} }
