//go:build verif

package sftp

// PRNG, stuck-state detector, goroutine-leak and fd monitors, tree snapshots.

import (
	"bytes"
	"crypto/sha1"
	"encoding/hex"
	"fmt"
	"os"
	"path/filepath"
	"regexp"
	"runtime"
	rtdbg "runtime/debug"
	"runtime/metrics"
	"sort"
	"strings"
	"sync"
	"sync/atomic"
	"syscall"
	"time"

	"golang.org/x/sys/unix"
)

// ---- PRNG (splitmix64) ------------------------------------------------------

type vfRand struct{ s uint64 }

func vfNewRand(seed uint64) *vfRand { return &vfRand{s: seed*0x9E3779B97F4A7C15 + 0x1234567} }

func (r *vfRand) Uint64() uint64 {
	r.s += 0x9E3779B97F4A7C15
	z := r.s
	z = (z ^ (z >> 30)) * 0xBF58476D1CE4E5B9
	z = (z ^ (z >> 27)) * 0x94D049BB133111EB
	return z ^ (z >> 31)
}
func (r *vfRand) Uint32() uint32 { return uint32(r.Uint64() >> 32) }
func (r *vfRand) Intn(n int) int {
	if n <= 0 {
		return 0
	}
	return int(r.Uint64() % uint64(n))
}
func (r *vfRand) Bool() bool          { return r.Uint64()&1 == 1 }
func (r *vfRand) Chance(pct int) bool { return r.Intn(100) < pct }
func (r *vfRand) Bytes(n int) []byte {
	b := make([]byte, n)
	for i := 0; i < n; i += 8 {
		v := r.Uint64()
		for j := 0; j < 8 && i+j < n; j++ {
			b[i+j] = byte(v >> (8 * j))
		}
	}
	return b
}
func (r *vfRand) Perm(n int) []int {
	p := make([]int, n)
	for i := range p {
		p[i] = i
	}
	for i := n - 1; i > 0; i-- {
		j := r.Intn(i + 1)
		p[i], p[j] = p[j], p[i]
	}
	return p
}
func (r *vfRand) Fork() *vfRand { return vfNewRand(r.Uint64()) }

func vfPick[T any](r *vfRand, xs []T) T { return xs[r.Intn(len(xs))] }

// vfPattern returns n bytes that are a pure function of (tag, absolute offset), so
// that a byte found at the wrong offset is recognisable.
func vfPattern(tag uint64, off int64, n int) []byte {
	b := make([]byte, n)
	for i := range b {
		x := uint64(off+int64(i))*0x9E3779B97F4A7C15 + tag*0xD1B54A32D192ED03
		x ^= x >> 29
		x *= 0xBF58476D1CE4E5B9
		x ^= x >> 32
		b[i] = byte(x)
		if b[i] == 0xEE { // 0xEE is the sentinel used to pre-fill read buffers
			b[i] = 0x11
		}
	}
	return b
}

// ---- stuck-state detector ---------------------------------------------------

type vfWait int

const (
	vfDone vfWait = iota
	vfStuck
	vfTimeout
)

type vfGoroutine struct {
	id    string
	state string
	stack string
	top   string
}

var vfGoHdr = regexp.MustCompile(`^goroutine (\d+) \[([^\]]+)\]:`)

func vfGoroutines() []vfGoroutine {
	buf := make([]byte, 1<<20)
	for {
		n := runtime.Stack(buf, true)
		if n < len(buf) {
			buf = buf[:n]
			break
		}
		buf = make([]byte, 2*len(buf))
	}
	var out []vfGoroutine
	for _, blk := range strings.Split(string(buf), "\n\n") {
		blk = strings.TrimSpace(blk)
		m := vfGoHdr.FindStringSubmatch(blk)
		if m == nil {
			continue
		}
		state := m[2]
		if i := strings.Index(state, ","); i >= 0 {
			state = state[:i]
		}
		lines := strings.Split(blk, "\n")
		top := ""
		if len(lines) > 1 {
			top = lines[1]
			if i := strings.LastIndex(top, "("); i > 0 {
				top = top[:i]
			}
		}
		out = append(out, vfGoroutine{id: m[1], state: state, stack: blk, top: top})
	}
	return out
}

var vfParkedStates = map[string]bool{
	"chan receive": true, "chan send": true, "select": true, "select (no cases)": true,
	"chan receive (nil chan)": true, "chan send (nil chan)": true,
	"sync.Mutex.Lock": true, "sync.RWMutex.RLock": true, "sync.RWMutex.Lock": true,
	"sync.WaitGroup.Wait": true, "sync.Cond.Wait": true, "semacquire": true,
}

// vfQuiescentSig returns a signature of the goroutine states if every goroutine
// except the caller is parked (no goroutine could make progress by itself), or ""
// if anything is still active.
func vfQuiescentSig() (string, string) {
	gs := vfGoroutines()
	var parts []string
	for i, g := range gs {
		if i == 0 { // the caller (running)
			continue
		}
		if strings.Contains(g.stack, "os/signal.") || strings.Contains(g.stack, "runtime.ensureSigM") {
			continue
		}
		if !vfParkedStates[g.state] {
			return "", ""
		}
		parts = append(parts, g.id+":"+g.state+":"+g.top)
	}
	sort.Strings(parts)
	var dump bytes.Buffer
	for i, g := range gs {
		if i == 0 {
			continue
		}
		dump.WriteString(g.stack)
		dump.WriteString("\n\n")
	}
	return strings.Join(parts, ";"), dump.String()
}

// vfAwait waits for done. It never decides on wall-clock time alone: a violation
// verdict (vfStuck) requires that for a whole confirmation window every goroutine
// of the process other than this one is parked on a channel/mutex/cond/waitgroup
// with an unchanged state signature, i.e. nothing in the process can wake anything
// (transports are in-memory and the harness uses no timers while waiting).
// vfTimeout (generous wall-clock cap) is "inconclusive".
// The cap does not fire on the clock alone either: the clock of a virtual machine
// can jump (pause/resume, a frozen host) and a starved process can lose minutes
// without running at all, and then every deadline of every process expires at
// once. The cap needs, besides the elapsed time, that this goroutine itself was
// scheduled for the polls that fit in half of it.
// vfCapFired is set while the most recent wait of the process ended on its
// wall-clock cap: what a check reports about that wait is recorded as inconclusive
// (vfUnit.Violation), whatever the call site does with the result.
var vfCapFired atomic.Bool

func vfAwait(done <-chan struct{}, limit time.Duration) (vfWait, string) {
	vfCapFired.Store(false)
	deadline := time.Now().Add(limit)
	needPolls := int(limit / (40 * time.Millisecond))
	polls := 0
	// fast path
	for i := 0; i < 50; i++ {
		select {
		case <-done:
			return vfDone, ""
		default:
		}
		runtime.Gosched()
	}
	lastSig := ""
	stable := 0
	const need = 30 // × 20 ms = 0.6 s, then re-confirmed after a further 0.6 s
	for {
		select {
		case <-done:
			return vfDone, ""
		case <-time.After(20 * time.Millisecond):
		}
		polls++
		sig, _ := vfQuiescentSig()
		if sig != "" && sig == lastSig {
			stable++
		} else {
			stable = 0
			lastSig = sig
		}
		if stable >= need {
			// re-confirm
			time.Sleep(600 * time.Millisecond)
			select {
			case <-done:
				return vfDone, ""
			default:
			}
			sig2, dump := vfQuiescentSig()
			if sig2 == lastSig {
				return vfStuck, dump
			}
			stable = 0
			lastSig = sig2
		}
		if polls >= needPolls && time.Now().After(deadline) {
			_, dump := vfQuiescentSig()
			if dump == "" {
				var b bytes.Buffer
				for _, g := range vfGoroutines() {
					b.WriteString(g.stack + "\n\n")
				}
				dump = b.String()
			}
			vfCapFired.Store(true)
			return vfTimeout, dump
		}
	}
}

// vfGo runs fn in a goroutine and returns a channel closed when it returns.
func vfGo(fn func()) <-chan struct{} {
	ch := make(chan struct{})
	go func() {
		defer close(ch)
		fn()
	}()
	return ch
}

// ---- goroutine leak monitor -------------------------------------------------

type vfGoSet map[string]bool

func vfGoBaseline() vfGoSet {
	s := vfGoSet{}
	for _, g := range vfGoroutines() {
		s[g.id] = true
	}
	return s
}

var vfPkgFrame = regexp.MustCompile(`github\.com/pkg/sftp\.([^\s(]*(\([^)]*\))?[^\s(]*)\(`)

// vfPkgGoroutine reports whether the goroutine has a frame of package code that is
// not harness code.
func vfPkgGoroutine(g vfGoroutine) bool {
	for _, m := range vfPkgFrame.FindAllStringSubmatch(g.stack, -1) {
		fn := m[1]
		if strings.HasPrefix(fn, "vf") || strings.HasPrefix(fn, "(*vf") || strings.HasPrefix(fn, "TestVerif") || strings.HasPrefix(fn, "runUnit") || strings.Contains(fn, ".vf") {
			continue
		}
		// closures of harness functions: vfXxx.func1
		return true
	}
	return false
}

// Leaks waits (bounded, progress-based) for goroutines created since the baseline
// that run package code to exit; returns the stacks of those that are parked and
// never leave.
func (b vfGoSet) Leaks() []string {
	var left []vfGoroutine
	for round := 0; round < 400; round++ {
		left = left[:0]
		active := false
		for i, g := range vfGoroutines() {
			if i == 0 || b[g.id] {
				continue
			}
			if !vfPkgGoroutine(g) {
				continue
			}
			left = append(left, g)
			if !vfParkedStates[g.state] {
				active = true
			}
		}
		if len(left) == 0 {
			return nil
		}
		if !active && round >= 60 {
			// parked for > 60 rounds; confirm with the whole-process quiescence test
			if sig, _ := vfQuiescentSig(); sig != "" {
				break
			}
		}
		time.Sleep(10 * time.Millisecond)
	}
	var out []string
	for _, g := range left {
		out = append(out, g.stack)
	}
	return out
}

// ---- fd monitor ---------------------------------------------------------------

func vfFDsUnder(dir string) []string {
	ents, err := os.ReadDir("/proc/self/fd")
	if err != nil {
		return nil
	}
	var out []string
	for _, e := range ents {
		t, err := os.Readlink("/proc/self/fd/" + e.Name())
		if err == nil && strings.HasPrefix(t, dir) {
			out = append(out, t)
		}
	}
	sort.Strings(out)
	return out
}

// ---- tree snapshots -----------------------------------------------------------

type vfNode struct {
	Type   string
	Perm   uint32
	Size   int64
	Hash   string
	Target string
	Nlink  uint64
	UID    uint32
	GID    uint32
	Mtime  int64
}

type vfTree map[string]vfNode

type vfSnapOpts struct {
	Mtime    bool
	DirMtime bool
}

func vfSnapshot(root string, o vfSnapOpts) vfTree {
	t := vfTree{}
	filepath.Walk(root, func(p string, info os.FileInfo, err error) error {
		if err != nil {
			if info == nil {
				return nil
			}
		}
		rel, _ := filepath.Rel(root, p)
		n := vfNode{Perm: uint32(info.Mode().Perm() | info.Mode()&(os.ModeSetuid|os.ModeSetgid|os.ModeSticky))}
		if st, ok := info.Sys().(*syscall.Stat_t); ok {
			n.Nlink, n.UID, n.GID = uint64(st.Nlink), st.Uid, st.Gid
		}
		switch {
		case info.Mode()&os.ModeSymlink != 0:
			n.Type = "l"
			n.Target, _ = os.Readlink(p)
		case info.IsDir():
			n.Type = "d"
			n.Nlink = 0 // depends on children; children are compared on their own
			if o.DirMtime {
				n.Mtime = info.ModTime().Unix()
			}
		case info.Mode().IsRegular():
			n.Type = "f"
			n.Size = info.Size()
			if info.Size() > 64<<20 {
				n.Hash = "huge" // (a hostile SETSTAT may have made a sparse giant: do not read it)
			} else if b, err := os.ReadFile(p); err == nil {
				h := sha1.Sum(b)
				n.Hash = hex.EncodeToString(h[:6])
			} else {
				n.Hash = "unreadable"
			}
			if o.Mtime {
				n.Mtime = info.ModTime().Unix()
			}
		default:
			n.Type = info.Mode().Type().String()
		}
		t[rel] = n
		return nil
	})
	return t
}

func (a vfTree) Diff(b vfTree) []string {
	var out []string
	for k, va := range a {
		vb, ok := b[k]
		if !ok {
			out = append(out, fmt.Sprintf("only-in-A %s %+v", k, va))
		} else if va != vb {
			out = append(out, fmt.Sprintf("differs %s A=%+v B=%+v", k, va, vb))
		}
	}
	for k, vb := range b {
		if _, ok := a[k]; !ok {
			out = append(out, fmt.Sprintf("only-in-B %s %+v", k, vb))
		}
	}
	sort.Strings(out)
	return out
}

// vfCopyTree copies a template tree (regular files, dirs, symlinks) preserving modes and mtimes.
func vfCopyTree(src, dst string) error {
	return filepath.Walk(src, func(p string, info os.FileInfo, err error) error {
		if err != nil {
			return err
		}
		rel, _ := filepath.Rel(src, p)
		q := filepath.Join(dst, rel)
		switch {
		case info.Mode()&os.ModeSymlink != 0:
			t, _ := os.Readlink(p)
			return os.Symlink(t, q)
		case info.IsDir():
			if err := os.MkdirAll(q, 0o755); err != nil {
				return err
			}
		case info.Mode().IsRegular():
			b, err := os.ReadFile(p)
			if err != nil {
				return err
			}
			if err := os.WriteFile(q, b, 0o644); err != nil {
				return err
			}
		default:
			return nil
		}
		return nil
	})
}

// vfFixTimes sets mode bits and a fixed mtime on every entry (children before parents).
func vfFixTimes(src, dst string, when time.Time) {
	var paths []string
	filepath.Walk(dst, func(p string, info os.FileInfo, err error) error {
		if err == nil {
			paths = append(paths, p)
		}
		return nil
	})
	for i := len(paths) - 1; i >= 0; i-- {
		p := paths[i]
		fi, err := os.Lstat(p)
		if err != nil {
			continue
		}
		if fi.Mode()&os.ModeSymlink != 0 {
			// a symlink has its own mtime (reported by LSTAT): pin it as well
			ts := []unix.Timespec{unix.NsecToTimespec(when.UnixNano()), unix.NsecToTimespec(when.UnixNano())}
			unix.UtimesNanoAt(unix.AT_FDCWD, p, ts, unix.AT_SYMLINK_NOFOLLOW)
			continue
		}
		if src != "" {
			rel, _ := filepath.Rel(dst, p)
			if si, err := os.Lstat(filepath.Join(src, rel)); err == nil {
				os.Chmod(p, si.Mode().Perm()|si.Mode()&(os.ModeSetuid|os.ModeSetgid|os.ModeSticky))
			}
		}
		os.Chtimes(p, when, when)
	}
}

// syscallUmask pins the process umask to 022 (the sandbox default), so that modes of
// created files are comparable between a served tree and an os-driven twin.
func syscallUmask() { syscall.Umask(0o022) }

// vfSetEffective switches the effective uid/gid of EVERY thread of the process (the real and
// saved ids stay 0, so the switch is reversible). It needs a binary built without cgo
// (syscall.AllThreadsSyscall); it returns an error otherwise and the caller falls back to
// privileged runs.
func vfSetEffective(uid, gid int) error {
	none := ^uintptr(0)
	setu := func() error {
		if _, _, e := syscall.AllThreadsSyscall(syscall.SYS_SETRESUID, none, uintptr(uid), none); e != 0 {
			return e
		}
		return nil
	}
	setg := func() error {
		if _, _, e := syscall.AllThreadsSyscall(syscall.SYS_SETRESGID, none, uintptr(gid), none); e != 0 {
			return e
		}
		return nil
	}
	if uid == 0 { // regain the uid first, then the gid
		if err := setu(); err != nil {
			return err
		}
		return setg()
	}
	if err := setg(); err != nil {
		return err
	}
	return setu()
}

func vfFirstDiff(a, b []byte) int {
	n := len(a)
	if len(b) < n {
		n = len(b)
	}
	for i := 0; i < n; i++ {
		if a[i] != b[i] {
			return i
		}
	}
	return n
}

func sortStrings(s []string) {
	for i := 1; i < len(s); i++ {
		for j := i; j > 0 && s[j] < s[j-1]; j-- {
			s[j], s[j-1] = s[j-1], s[j]
		}
	}
}

// vfLineDiff lists the lines that differ between two multi-line strings.
func vfLineDiff(a, b string) string {
	am := map[string]int{}
	for _, l := range strings.Split(a, "\n") {
		am[l]++
	}
	var out []string
	for _, l := range strings.Split(b, "\n") {
		if am[l] > 0 {
			am[l]--
		} else {
			out = append(out, "+ "+l)
		}
	}
	for l, n := range am {
		for ; n > 0; n-- {
			out = append(out, "- "+l)
		}
	}
	return strings.Join(out, "\n")
}

// ---- allocation meter -----------------------------------------------------------

var vfAllocSample = []metrics.Sample{{Name: "/gc/heap/allocs:bytes"}}
var vfAllocMu sync.Mutex

// vfAllocs returns the cumulative bytes allocated by the process.
func vfAllocs() uint64 {
	vfAllocMu.Lock()
	defer vfAllocMu.Unlock()
	metrics.Read(vfAllocSample)
	return vfAllocSample[0].Value.Uint64()
}

func vfStack() string { return string(rtdbg.Stack()) }

func vfB2i(b bool) int {
	if b {
		return 1
	}
	return 0
}
