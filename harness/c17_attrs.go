//go:build verif

package sftp

// C17 — File attributes and modes survive every conversion.
//
// units: 0 mode tables (exhaustive) · 1 host truth per file kind · 2 chmod sweep
// (exhaustive 4096) · 3 setstat/fsetstat flag subsets (exhaustive 16 × 2) ·
// 4.. long-name agreement (seeded entries)

import (
	"fmt"
	"io"
	"net"
	"os"
	"os/user"
	"path/filepath"
	"sort"
	"strconv"
	"strings"
	"syscall"
	"testing"
	"time"

	sshfx "github.com/pkg/sftp/internal/encoding/ssh/filexfer"
)

func sshfxFileModeString(w uint32) string { return sshfx.FileMode(w).String() }

// independent POSIX table
const (
	pxIFMT, pxIFSOCK, pxIFLNK, pxIFREG, pxIFBLK, pxIFDIR, pxIFCHR, pxIFIFO = 0o170000, 0o140000, 0o120000, 0o100000, 0o060000, 0o040000, 0o020000, 0o010000
	pxISUID, pxISGID, pxISVTX                                              = 0o4000, 0o2000, 0o1000
)

var pxTypes = []struct {
	px  uint32
	go_ os.FileMode
	ch  byte
	nm  string
}{
	{pxIFREG, 0, '-', "regular"},
	{pxIFDIR, os.ModeDir, 'd', "dir"},
	{pxIFLNK, os.ModeSymlink, 'l', "symlink"},
	{pxIFIFO, os.ModeNamedPipe, 'p', "fifo"},
	{pxIFSOCK, os.ModeSocket, 's', "socket"},
	{pxIFCHR, os.ModeDevice | os.ModeCharDevice, 'c', "chardev"},
	{pxIFBLK, os.ModeDevice, 'b', "blockdev"},
}

func pxWant(w uint32) (os.FileMode, bool) {
	m := os.FileMode(w & 0o777)
	if w&pxISUID != 0 {
		m |= os.ModeSetuid
	}
	if w&pxISGID != 0 {
		m |= os.ModeSetgid
	}
	if w&pxISVTX != 0 {
		m |= os.ModeSticky
	}
	for _, t := range pxTypes {
		if w&pxIFMT == t.px {
			return m | t.go_, true
		}
	}
	return m, false
}

// fromFileModeRef: os.FileMode -> wire word by the independent table (regular/dir + permission and special bits).
func fromFileModeRef(m os.FileMode) uint32 {
	w := uint32(m & 0o777)
	if m&os.ModeSetuid != 0 {
		w |= pxISUID
	}
	if m&os.ModeSetgid != 0 {
		w |= pxISGID
	}
	if m&os.ModeSticky != 0 {
		w |= pxISVTX
	}
	for _, t := range pxTypes {
		if m&os.ModeType == t.go_ {
			return w | t.px
		}
	}
	return w
}

func pxString(w uint32) string {
	b := []byte("?---------")
	for _, t := range pxTypes {
		if w&pxIFMT == t.px {
			b[0] = t.ch
		}
	}
	for i, c := range "rwxrwxrwx" {
		if w&(1<<uint(8-i)) != 0 {
			b[i+1] = byte(c)
		}
	}
	sp := func(bit uint32, pos int, lo, up byte) {
		if w&bit != 0 {
			if b[pos] == 'x' {
				b[pos] = lo
			} else {
				b[pos] = up
			}
		}
	}
	sp(pxISUID, 3, 's', 'S')
	sp(pxISGID, 6, 's', 'S')
	sp(pxISVTX, 9, 't', 'T')
	return string(b)
}

func TestVerifC17(t *testing.T) {
	vfMain(t, vfCheck{
		ID: "C17", Level: "exploration", Exhaustive: false,
		Rule:        "unit0: all 2^16 wire mode words and all 7x512x8 os.FileMode values through toFileMode/fromFileMode/toChmodPerm/FileMode.String against an independent POSIX table (exhaustive); unit1: one object per file kind the host can create, Stat/Lstat/ReadDir via Client on both servers vs os.Lstat+Stat_t; unit2: all 4096 perm+special values through Client.Chmod and File.Chmod vs os.Chmod on a twin (exhaustive); unit3: all 16 attribute-flag subsets x {SETSTAT,FSETSTAT} vs the same os calls on a twin (exhaustive); units 4+: seeded directory entries, long name parsed and compared with the structured attributes. A class is one (sub-check, value) pair; all are non-trivial.",
		Assumptions: []string{"runs as root on Linux (mknod, chown available)", "owner names in the long name are compared through the same os/user lookup the server uses"},
		Units: func(tier vfTier, seed uint64) int {
			if tier == vfThorough {
				return 4 + 240
			}
			return 4 + 4
		},
		Shards: func(tier vfTier) int {
			if tier == vfThorough {
				return 6
			}
			return 3
		},
		Floors: map[string]int64{"mode_words": 65536, "chmod_values": 4096, "setstat_subsets": 32, "file_kinds": 6, "longname_entries": 100},
		Run:    c17Run,
	})
}

func c17Run(u *vfUnit) {
	switch u.Index {
	case 0:
		c17Tables(u)
	case 1:
		c17HostTruth(u)
	case 2:
		c17Chmod(u)
	case 3:
		c17Setstat(u)
	default:
		c17LongNames(u)
		c17VirtualLongNames(u)
	}
}

func c17Tables(u *vfUnit) {
	// all 2^16 wire words (plus high garbage bits on a sample)
	for w := uint32(0); w < 1<<16; w++ {
		u.Eval(fmt.Sprintf("w%#o", w))
		u.Count("mode_words", 1)
		want, defined := pxWant(w)
		got := toFileMode(w)
		if defined {
			if got != want {
				u.Violation(fmt.Sprintf("toFileMode:type=%#o", w&pxIFMT), fmt.Sprintf("toFileMode(%#o)=%v want %v", w, got, want), map[string]any{"word": w})
			}
			if back := fromFileMode(got); back != w {
				u.Violation(fmt.Sprintf("roundtrip-wire:type=%#o", w&pxIFMT), fmt.Sprintf("fromFileMode(toFileMode(%#o))=%#o", w, back), map[string]any{"word": w})
			}
		} else {
			// undefined type nibble: totality + permission/special bits preserved
			const keep = os.ModePerm | os.ModeSetuid | os.ModeSetgid | os.ModeSticky
			if got&keep != want&keep {
				u.Violation("toFileMode:undefined-type-perm", fmt.Sprintf("toFileMode(%#o)=%v loses perm/special bits (want %v)", w, got&keep, want&keep), map[string]any{"word": w})
			}
		}
		if s := fmt.Sprint(sshfxFileModeString(w)); s != pxString(w) {
			u.Violation(fmt.Sprintf("FileMode.String:type=%#o", w&pxIFMT), fmt.Sprintf("FileMode(%#o).String()=%q want %q", w, s, pxString(w)), map[string]any{"word": w})
		}
		if isRegular(w) != (w&pxIFMT == pxIFREG) {
			u.Violation("isRegular", fmt.Sprintf("isRegular(%#o)=%v", w, isRegular(w)), map[string]any{"word": w})
		}
	}
	// high bits must not disturb the low 16
	for i := 0; i < 2000; i++ {
		w := u.Rng.Uint32()
		want, defined := pxWant(w & 0xFFFF)
		if defined && toFileMode(w) != want {
			u.Violation("toFileMode:highbits", fmt.Sprintf("toFileMode(%#x)=%v want %v", w, toFileMode(w), want), map[string]any{"word": w})
		}
	}
	// all os.FileMode values of one type, nine permission and three special bits
	n := 0
	for _, t := range pxTypes {
		for perm := os.FileMode(0); perm < 512; perm++ {
			for sp := 0; sp < 8; sp++ {
				m := t.go_ | perm
				w := t.px | uint32(perm)
				if sp&1 != 0 {
					m |= os.ModeSetuid
					w |= pxISUID
				}
				if sp&2 != 0 {
					m |= os.ModeSetgid
					w |= pxISGID
				}
				if sp&4 != 0 {
					m |= os.ModeSticky
					w |= pxISVTX
				}
				n++
				u.Eval(fmt.Sprintf("m%v", m))
				if got := fromFileMode(m); got != w {
					u.Violation("fromFileMode:"+t.nm, fmt.Sprintf("fromFileMode(%v)=%#o want %#o", m, got, w), map[string]any{"mode": uint32(m)})
				}
				if back := toFileMode(fromFileMode(m)); back != m {
					u.Violation("roundtrip-os:"+t.nm, fmt.Sprintf("toFileMode(fromFileMode(%v))=%v", m, back), map[string]any{"mode": uint32(m)})
				}
				if got := toChmodPerm(m); got != w&0o7777 {
					u.Violation("toChmodPerm:"+t.nm, fmt.Sprintf("toChmodPerm(%v)=%#o want %#o", m, got, w&0o7777), map[string]any{"mode": uint32(m)})
				}
				// FileStat.FileMode / fileInfo
				fi := fileInfoFromStat(&FileStat{Mode: w, Size: 7, Mtime: 1000}, "x")
				if fi.Mode() != m || fi.IsDir() != (t.nm == "dir") {
					u.Violation("fileInfo.Mode:"+t.nm, fmt.Sprintf("fileInfoFromStat(Mode=%#o).Mode()=%v want %v", w, fi.Mode(), m), nil)
				}
			}
		}
	}
	u.Count("os_modes", int64(n))
	u.Sample(map[string]any{"wire_word": "0o104755", "toFileMode": toFileMode(0o104755).String(), "string": sshfxFileModeString(0o104755)})
}

type c17Obj struct {
	name string
	kind string
}

// c17MakeKinds creates one object per file kind in dir and returns what was created.
func c17MakeKinds(u *vfUnit, dir string) []c17Obj {
	var out []c17Obj
	add := func(name, kind string, err error) {
		if err == nil {
			out = append(out, c17Obj{name, kind})
		} else {
			u.SetAdd("kinds_unavailable", kind+":"+err.Error())
		}
	}
	p := func(n string) string { return filepath.Join(dir, n) }
	add("reg", "regular", os.WriteFile(p("reg"), vfPattern(1, 0, 12345), 0o640))
	os.Chmod(p("reg"), 0o4750)
	add("dir", "dir", os.Mkdir(p("dir"), 0o750))
	os.Chmod(p("dir"), 0o3751|os.FileMode(0)) // setgid+sticky via raw syscall below
	syscall.Chmod(p("dir"), 0o3751)
	syscall.Chmod(p("reg"), 0o4750)
	add("lnk", "symlink", os.Symlink("reg", p("lnk")))
	add("fifo", "fifo", syscall.Mkfifo(p("fifo"), 0o604))
	l, err := net.Listen("unix", p("sock"))
	add("sock", "socket", err)
	if err == nil {
		l.(*net.UnixListener).SetUnlinkOnClose(false)
		l.Close()
	}
	add("chr", "chardev", syscall.Mknod(p("chr"), syscall.S_IFCHR|0o620, 1<<8|3))
	add("blk", "blockdev", syscall.Mknod(p("blk"), syscall.S_IFBLK|0o660, 7<<8|0))
	for i, o := range out {
		if o.kind == "symlink" {
			os.Lchown(p(o.name), 1000+i, 2000+i)
			continue
		}
		os.Lchown(p(o.name), 1000+i, 2000+i)
		if o.kind == "regular" {
			syscall.Chmod(p("reg"), 0o4750) // chown may clear setuid
		}
		mt := time.Unix(1500000000+int64(i)*86400*3, 0)
		if i%2 == 1 {
			// wire times are unsigned 32-bit seconds: values from 2038 on must survive as well
			mt = time.Unix(0x80000000+int64(i)*86400*400, 0)
		}
		os.Chtimes(p(o.name), mt.Add(time.Hour), mt)
	}
	return out
}

func c17CompareInfo(u *vfUnit, where, kind string, got os.FileInfo, want os.FileInfo) {
	st := want.Sys().(*syscall.Stat_t)
	fs, _ := got.Sys().(*FileStat)
	var probs []string
	if got.Mode() != want.Mode() {
		probs = append(probs, fmt.Sprintf("mode %v want %v", got.Mode(), want.Mode()))
	}
	if got.Size() != want.Size() {
		probs = append(probs, fmt.Sprintf("size %d want %d", got.Size(), want.Size()))
	}
	if got.ModTime().Unix() != want.ModTime().Unix() {
		probs = append(probs, fmt.Sprintf("mtime %d want %d", got.ModTime().Unix(), want.ModTime().Unix()))
	}
	if fs == nil {
		probs = append(probs, "Sys() is not *FileStat")
	} else {
		if fs.UID != st.Uid || fs.GID != st.Gid {
			probs = append(probs, fmt.Sprintf("owner %d:%d want %d:%d", fs.UID, fs.GID, st.Uid, st.Gid))
		}
		if fs.Mode != st.Mode&0xFFFF {
			probs = append(probs, fmt.Sprintf("raw mode %#o want %#o", fs.Mode, st.Mode))
		}
	}
	if got.Name() != want.Name() {
		probs = append(probs, fmt.Sprintf("name %q want %q", got.Name(), want.Name()))
	}
	if len(probs) > 0 {
		u.Violation("hosttruth:"+where+":"+kind, fmt.Sprintf("%s of a %s: %s", where, kind, strings.Join(probs, "; ")), map[string]any{"where": where, "kind": kind})
	}
}

// c17OsHandlers: request-server handlers that answer from the real file system (fed the same os.FileInfo values).
type c17OsHandlers struct{ root string }

type c17Lister []os.FileInfo

func (l c17Lister) ListAt(out []os.FileInfo, off int64) (int, error) {
	if off >= int64(len(l)) {
		return 0, io.EOF
	}
	n := copy(out, l[off:])
	if int(off)+n >= len(l) {
		return n, io.EOF
	}
	return n, nil
}

func (h c17OsHandlers) Filelist(r *Request) (ListerAt, error) {
	p := filepath.Join(h.root, r.Filepath)
	switch r.Method {
	case "List":
		ents, err := os.ReadDir(p)
		if err != nil {
			return nil, err
		}
		var l c17Lister
		for _, e := range ents {
			fi, err := e.Info()
			if err != nil {
				return nil, err
			}
			l = append(l, fi)
		}
		return l, nil
	case "Stat":
		fi, err := os.Stat(p)
		if err != nil {
			return nil, err
		}
		return c17Lister{fi}, nil
	}
	return nil, fmt.Errorf("unsupported %s", r.Method)
}

func (h c17OsHandlers) Lstat(r *Request) (ListerAt, error) {
	fi, err := os.Lstat(filepath.Join(h.root, r.Filepath))
	if err != nil {
		return nil, err
	}
	return c17Lister{fi}, nil
}

func c17HostTruth(u *vfUnit) {
	dir := u.TempDir()
	objs := c17MakeKinds(u, dir)
	u.Count("file_kinds", int64(len(objs)))
	for _, o := range objs {
		u.SetAdd("kinds_created", o.kind)
	}
	for _, kind := range []vfKind{vfOS, vfRS} {
		cfg := vfSrvCfg{Kind: kind}
		base := dir
		if kind == vfRS {
			h := c17OsHandlers{root: dir}
			cfg.H = Handlers{FileList: h}
			base = "/"
		}
		sess, err := vfConnect(cfg, vfPipeOpts{})
		if err != nil {
			u.Inconclusive("connect: %v", err)
			return
		}
		for _, o := range objs {
			p := filepath.Join(base, o.name)
			lw, _ := os.Lstat(filepath.Join(dir, o.name))
			sw, serr := os.Stat(filepath.Join(dir, o.name))
			u.Eval(fmt.Sprintf("host:%v:%s", kind, o.kind))
			if got, err := sess.C.Lstat(p); err != nil {
				u.Violation("hosttruth:Lstat-err:"+kind.String()+":"+o.kind, fmt.Sprintf("Lstat(%s %s) failed: %v", kind, o.kind, err), nil)
			} else {
				c17CompareInfo(u, kind.String()+".Lstat", o.kind, got, lw)
			}
			if serr == nil {
				if got, err := sess.C.Stat(p); err != nil {
					u.Violation("hosttruth:Stat-err:"+kind.String()+":"+o.kind, fmt.Sprintf("Stat(%s %s) failed: %v", kind, o.kind, err), nil)
				} else {
					c17CompareInfo(u, kind.String()+".Stat", o.kind, got, sw)
				}
			}
		}
		ents, err := sess.C.ReadDir(base)
		if err != nil {
			u.Violation("hosttruth:ReadDir-err:"+kind.String(), fmt.Sprintf("ReadDir failed: %v", err), nil)
		}
		seen := map[string]bool{}
		for _, e := range ents {
			seen[e.Name()] = true
			for _, o := range objs {
				if o.name == e.Name() {
					lw, _ := os.Lstat(filepath.Join(dir, o.name))
					c17CompareInfo(u, kind.String()+".ReadDir", o.kind, e, lw)
				}
			}
		}
		for _, o := range objs {
			if !seen[o.name] {
				u.Violation("hosttruth:ReadDir-missing:"+kind.String(), fmt.Sprintf("ReadDir lacks %s", o.name), nil)
			}
		}
		if msg := sess.Close(); msg != "" {
			u.Violation("hosttruth:close", msg, nil)
		}
	}
	u.Sample(map[string]any{"kinds": fmt.Sprint(objs)})
}

func c17Chmod(u *vfUnit) {
	dir := u.TempDir()
	a, b := filepath.Join(dir, "a"), filepath.Join(dir, "b")
	os.WriteFile(a, []byte("x"), 0o600)
	os.WriteFile(b, []byte("x"), 0o600)
	sess, err := vfConnect(vfSrvCfg{Kind: vfOS}, vfPipeOpts{})
	if err != nil {
		u.Inconclusive("connect: %v", err)
		return
	}
	f, err := sess.C.OpenFile(a, os.O_RDWR)
	if err != nil {
		u.Inconclusive("open: %v", err)
		return
	}
	for v := 0; v < 4096; v++ {
		m := os.FileMode(v & 0o777)
		if v&pxISUID != 0 {
			m |= os.ModeSetuid
		}
		if v&pxISGID != 0 {
			m |= os.ModeSetgid
		}
		if v&pxISVTX != 0 {
			m |= os.ModeSticky
		}
		u.Eval(fmt.Sprintf("chmod%#o", v))
		u.Count("chmod_values", 1)
		for _, via := range []string{"Client.Chmod", "File.Chmod"} {
			os.Chmod(a, 0o600)
			os.Chmod(b, 0o600)
			var e1 error
			if via == "Client.Chmod" {
				e1 = sess.C.Chmod(a, m)
			} else {
				e1 = f.Chmod(m)
			}
			e2 := os.Chmod(b, m)
			sa, _ := os.Lstat(a)
			sb, _ := os.Lstat(b)
			if (e1 == nil) != (e2 == nil) || sa.Mode() != sb.Mode() {
				u.Violation(fmt.Sprintf("chmod:%s:special=%#o", via, v&0o7000), fmt.Sprintf("%s(%v): file mode %v (err %v); os.Chmod gives %v (err %v)", via, m, sa.Mode(), e1, sb.Mode(), e2), map[string]any{"value": v, "via": via})
			}
		}
	}
	// the documented extra: a mode whose special bits are given the POSIX way (04000/02000/01000 in the numeric
	// value, as in Chmod(p, 04755)) is passed on as such — package os would ignore those bits, so the twin is
	// driven with the raw system call
	for v := 0o1000; v < 0o10000; v += 0o111 {
		for _, via := range []string{"Client.Chmod", "File.Chmod"} {
			os.Chmod(a, 0o600)
			os.Chmod(b, 0o600)
			var e1 error
			if via == "Client.Chmod" {
				e1 = sess.C.Chmod(a, os.FileMode(v))
			} else {
				e1 = f.Chmod(os.FileMode(v))
			}
			e2 := syscall.Chmod(b, uint32(v))
			sa, _ := os.Lstat(a)
			sb, _ := os.Lstat(b)
			u.Count("chmod_values", 1)
			if (e1 == nil) != (e2 == nil) || sa.Mode() != sb.Mode() {
				u.Violation(fmt.Sprintf("chmod-posix-bits:%s:special=%#o", via, v&0o7000), fmt.Sprintf("%s(os.FileMode(%#o)): file mode %v (err %v); chmod(2) with that value gives %v (err %v)", via, v, sa.Mode(), e1, sb.Mode(), e2), map[string]any{"value": v, "via": via})
			}
		}
	}
	f.Close()
	if msg := sess.Close(); msg != "" {
		u.Violation("chmod:close", msg, nil)
	}
	u.Sample(map[string]any{"chmod_example": "Client.Chmod(a, -rwsr-x--T) vs os.Chmod(twin) compared by os.Lstat"})
}

type c17State struct {
	size         int64
	mode         os.FileMode
	uid, gid     uint32
	atime, mtime int64
}

func c17Get(p string) c17State {
	fi, err := os.Lstat(p)
	if err != nil {
		return c17State{size: -1}
	}
	st := fi.Sys().(*syscall.Stat_t)
	return c17State{size: fi.Size(), mode: fi.Mode(), uid: st.Uid, gid: st.Gid, atime: st.Atim.Sec, mtime: st.Mtim.Sec}
}

func c17Setstat(u *vfUnit) {
	syscallUmask()
	dir := u.TempDir()
	a, b := filepath.Join(dir, "a"), filepath.Join(dir, "b")
	rs, err := vfRawConnect(vfSrvCfg{Kind: vfOS}, vfPipeOpts{}, true)
	if err != nil {
		u.Inconclusive("connect: %v", err)
		return
	}
	id := uint32(10)
	base := time.Unix(1200000000, 0)
	for vi, newAttrs := range []vfAttrs{
		{Size: 37, UID: 4321, GID: 8765, Perm: 0o100000 | 0o2751, Atime: 1400000000, Mtime: 1300000000},
		{Size: 0, UID: 0, GID: 0, Perm: 0o100000 | 0o4000, Atime: 0x80000001, Mtime: 0xF0000000}, // times beyond 2038 (unsigned on the wire)
	} {
		for _, typ := range []byte{rfSetstat, rfFsetstat} {
			for sub := uint32(0); sub < 16; sub++ {
				if vi == 1 && sub&(rfAttrTime|rfAttrPerm|rfAttrSize) == 0 {
					continue
				}
				u.Eval(fmt.Sprintf("setstat:%d:%d", typ, sub))
				u.Count("setstat_subsets", 1)
				for _, p := range []string{a, b} {
					os.Remove(p)
					os.WriteFile(p, vfPattern(3, 0, 100), 0o644)
					os.Chown(p, 111, 222)
					os.Chmod(p, 0o644)
					os.Chtimes(p, base, base)
				}
				at := newAttrs
				at.Flags = sub
				var resp []vfPkt
				var err error
				if typ == rfSetstat {
					id++
					resp, err = rs.R.Phase(60*time.Second, vfPkt{Type: rfSetstat, ID: id, Path: a, Attrs: at})
				} else {
					id += 3
					var r1 []vfPkt
					r1, err = rs.R.Phase(60*time.Second, vfPkt{Type: rfOpen, ID: id, Path: a, Pflags: rfRead_ | rfWrite_})
					if err == nil && (len(r1) != 1 || r1[0].Type != rfHandle) {
						err = fmt.Errorf("open: %v", r1)
					}
					if err == nil {
						resp, err = rs.R.Phase(60*time.Second, vfPkt{Type: rfFsetstat, ID: id + 1, Handle: r1[0].Handle, Attrs: at})
						rs.R.Phase(60*time.Second, vfPkt{Type: rfClose, ID: id + 2, Handle: r1[0].Handle})
					}
				}
				if err != nil {
					u.Violation("setstat:transport", err.Error(), nil)
					return
				}
				// twin: same os calls in the order Truncate, Chmod, Chown, Chtimes
				var terr error
				if sub&rfAttrSize != 0 && terr == nil {
					terr = os.Truncate(b, int64(at.Size))
				}
				if sub&rfAttrPerm != 0 && terr == nil {
					want, _ := pxWant(at.Perm)
					terr = os.Chmod(b, want)
				}
				if sub&rfAttrUIDGID != 0 && terr == nil {
					terr = os.Chown(b, int(at.UID), int(at.GID))
				}
				if sub&rfAttrTime != 0 && terr == nil {
					terr = os.Chtimes(b, time.Unix(int64(at.Atime), 0), time.Unix(int64(at.Mtime), 0))
				}
				sa, sb := c17Get(a), c17Get(b)
				if sub&rfAttrTime == 0 {
					// un-set times move as an OS side effect of truncate etc.; not compared
					sa.atime, sb.atime, sa.mtime, sb.mtime = 0, 0, 0, 0
				}
				ok := len(resp) == 1 && resp[0].Type == rfStatus && (resp[0].Code == rfOK) == (terr == nil)
				if !ok || sa != sb {
					u.Violation(fmt.Sprintf("setstat:type=%d:flags=%#x:values=%d", typ, sub, vi), fmt.Sprintf("%s flags=%#x values %+v: reply %v, file now %+v; the same os calls on a twin give %+v (err %v)", rfTypeName(typ), sub, at, resp, sa, sb, terr), map[string]any{"type": typ, "flags": sub})
				}
			}
		}
	}
	// SETSTAT by a path whose last element is a symbolic link: like the os calls, it acts on what the link points at
	la, lb := filepath.Join(dir, "la"), filepath.Join(dir, "lb")
	os.Symlink("a", la)
	os.Symlink("b", lb)
	for sub := uint32(1); sub < 16; sub++ {
		u.Eval(fmt.Sprintf("setstat-via-link:%d", sub))
		u.Count("setstat_subsets", 1)
		for _, p := range []string{a, b} {
			os.Remove(p)
			os.WriteFile(p, vfPattern(3, 0, 100), 0o644)
			os.Chown(p, 111, 222)
			os.Chmod(p, 0o644)
			os.Chtimes(p, base, base)
		}
		os.Lchown(la, 5, 6)
		os.Lchown(lb, 5, 6)
		at := vfAttrs{Flags: sub, Size: 37, UID: 4321, GID: 8765, Perm: 0o100000 | 0o751, Atime: 1400000000, Mtime: 1300000000}
		id++
		resp, err := rs.R.Phase(60*time.Second, vfPkt{Type: rfSetstat, ID: id, Path: la, Attrs: at})
		if err != nil {
			u.Violation("setstat:transport", err.Error(), nil)
			return
		}
		var terr error
		if sub&rfAttrSize != 0 && terr == nil {
			terr = os.Truncate(lb, int64(at.Size))
		}
		if sub&rfAttrPerm != 0 && terr == nil {
			want, _ := pxWant(at.Perm)
			terr = os.Chmod(lb, want)
		}
		if sub&rfAttrUIDGID != 0 && terr == nil {
			terr = os.Chown(lb, int(at.UID), int(at.GID))
		}
		if sub&rfAttrTime != 0 && terr == nil {
			terr = os.Chtimes(lb, time.Unix(int64(at.Atime), 0), time.Unix(int64(at.Mtime), 0))
		}
		sa, sb := c17Get(a), c17Get(b)
		if sub&rfAttrTime == 0 {
			sa.atime, sb.atime, sa.mtime, sb.mtime = 0, 0, 0, 0
		}
		owner := func(p string) string {
			fi, err := os.Lstat(p)
			if err != nil {
				return err.Error()
			}
			st := fi.Sys().(*syscall.Stat_t)
			return fmt.Sprintf("%d:%d", st.Uid, st.Gid)
		}
		ok := len(resp) == 1 && resp[0].Type == rfStatus && (resp[0].Code == rfOK) == (terr == nil)
		if !ok || sa != sb || owner(la) != owner(lb) {
			u.Violation(fmt.Sprintf("setstat:via-symlink:flags=%#x", sub), fmt.Sprintf("SETSTAT flags=%#x on a symbolic link to a file: reply %v, target now %+v, link owner %s; the same os calls on a twin give %+v, link owner %s (err %v)", sub, resp, sa, owner(la), sb, owner(lb), terr), map[string]any{"flags": sub})
		}
	}
	// an OPEN that creates a file carries an attribute block too: the permissions in it are those of the block's
	// permissions field whatever else the block holds (every subset of the flags, with and without extended pairs)
	for sub := uint32(0); sub < 32; sub++ {
		at := vfAttrs{Flags: sub & 15, Size: 0x0000_01ED_0000_01FF, UID: 0o444, GID: 0o555, Perm: 0o100000 | 0o640, Atime: 0o777, Mtime: 0o711}
		if sub&16 != 0 {
			at.Flags |= rfAttrExt
			at.Ext = [][2]string{{"a@b", "c"}}
		}
		p := filepath.Join(dir, fmt.Sprintf("created-%d", sub))
		os.Remove(p)
		id++
		resp, err := rs.R.Phase(60*time.Second, vfPkt{Type: rfOpen, ID: id, Path: p, Pflags: rfWrite_ | rfCreat_ | rfExcl_, Attrs: at})
		u.Count("open_attribute_subsets", 1)
		if err != nil || len(resp) != 1 || resp[0].Type != rfHandle {
			u.Violation(fmt.Sprintf("open-create:flags=%#x", at.Flags), fmt.Sprintf("creating OPEN with attribute flags %#x answered %v (%v)", at.Flags, resp, err), nil)
			continue
		}
		id++
		rs.R.Phase(60*time.Second, vfPkt{Type: rfClose, ID: id, Handle: resp[0].Handle})
		want := os.FileMode(0o644)
		if at.Flags&rfAttrPerm != 0 {
			want = 0o640
		}
		if fi, err := os.Lstat(p); err != nil || fi.Mode() != want {
			got := "?"
			if fi != nil {
				got = fi.Mode().String()
			}
			u.Violation(fmt.Sprintf("open-create-mode:flags=%#x", at.Flags), fmt.Sprintf("creating OPEN with attribute flags %#x and permissions 0640 in the block: the file's mode is %s (err %v), expected %v (umask 022)", at.Flags, got, err, want), nil)
		}
		os.Remove(p)
	}
	if msg := rs.End(60 * time.Second); msg != "" {
		u.Violation("setstat:end", msg, nil)
	}
	u.Sample(map[string]any{"setstat_example": "FSETSTAT flags=0x5 (size+perm) then compare size/mode/owner/times with a twin"})
}

// c17ParseLong splits an `ls -l` style long name produced by runLs.
func c17ParseLong(long, name string) (perms string, links uint64, owner, group string, size uint64, date string, ok bool) {
	if !strings.HasSuffix(long, " "+name) {
		return
	}
	head := strings.TrimSuffix(long, " "+name)
	f := strings.Fields(head)
	if len(f) != 8 {
		return
	}
	perms = f[0]
	var err error
	if links, err = strconv.ParseUint(f[1], 10, 64); err != nil {
		return
	}
	owner, group = f[2], f[3]
	if size, err = strconv.ParseUint(f[4], 10, 64); err != nil {
		return
	}
	date = f[5] + " " + f[6] + " " + f[7]
	ok = true
	return
}

func c17WantDate(mtime int64, now time.Time) string {
	m := time.Unix(mtime, 0)
	if m.Before(now.AddDate(0, -6, 0)) {
		return m.Format("Jan 2") + " " + m.Format("2006")
	}
	return m.Format("Jan 2") + " " + m.Format("15:04")
}

func c17LongNames(u *vfUnit) {
	dir := u.TempDir()
	now := time.Now()
	n := 60
	type ent struct{ name string }
	var names []string
	for i := 0; i < n; i++ {
		name := fmt.Sprintf("e%03d", i)
		if i%7 == 3 {
			name = fmt.Sprintf("with space %d", i)
		}
		p := filepath.Join(dir, name)
		perm := uint32(u.Rng.Intn(4096))
		switch u.Rng.Intn(6) {
		case 0:
			os.Mkdir(p, 0o755)
		case 1:
			syscall.Mkfifo(p, 0o600)
		case 2:
			os.Symlink("e000", p)
		default:
			os.WriteFile(p, make([]byte, u.Rng.Intn(5000)), 0o600)
		}
		if fi, err := os.Lstat(p); err != nil {
			continue
		} else if fi.Mode()&os.ModeSymlink == 0 {
			uid, gid := 0, 0
			if u.Rng.Bool() {
				uid, gid = u.Rng.Intn(70000), u.Rng.Intn(70000)
			}
			if i%4 == 1 {
				// ids the host knows by name, group and user databases disagreeing about the number (adm/sync, tty/...)
				uids := append([]int{1, 2, 3, 4, 5, 8, 65534}, c17AccountsWithOtherRealName()...)
				uid, gid = uids[u.Rng.Intn(len(uids))], []int{4, 5, 6, 15, 20, 24, 42, 100, 65534}[u.Rng.Intn(9)]
			}
			os.Lchown(p, uid, gid)
			syscall.Chmod(p, perm)
			// mtimes: at least a day away from the six-month edge
			var mt time.Time
			if i%9 == 4 {
				mt = time.Unix(0x80000000+int64(u.Rng.Intn(1<<30)), 0) // beyond 2038
			} else if u.Rng.Bool() {
				mt = now.AddDate(0, -6, -2-u.Rng.Intn(3000))
			} else {
				mt = now.AddDate(0, 0, -u.Rng.Intn(170))
			}
			os.Chtimes(p, mt, mt)
		}
		names = append(names, name)
	}
	sort.Strings(names)
	for _, kind := range []vfKind{vfOS, vfRS} {
		cfg := vfSrvCfg{Kind: kind}
		base := dir
		if kind == vfRS {
			cfg.H = Handlers{FileList: c17OsHandlers{root: dir}}
			base = "/"
		}
		rs, err := vfRawConnect(cfg, vfPipeOpts{}, true)
		if err != nil {
			u.Inconclusive("connect: %v", err)
			return
		}
		r, err := rs.R.Phase(60*time.Second, vfPkt{Type: rfOpendir, ID: 1, Path: base})
		if err != nil || len(r) != 1 || r[0].Type != rfHandle {
			u.Violation("longname:opendir", fmt.Sprintf("opendir: %v %v", r, err), nil)
			return
		}
		h := r[0].Handle
		got := 0
		for id := uint32(2); id < 100; id++ {
			r, err := rs.R.Phase(60*time.Second, vfPkt{Type: rfReaddir, ID: id, Handle: h})
			if err != nil {
				u.Violation("longname:readdir", err.Error(), nil)
				return
			}
			if r[0].Type == rfStatus {
				break
			}
			for _, e := range r[0].Names {
				got++
				u.Eval(fmt.Sprintf("long:%v:%#o", kind, e.Attrs.Perm))
				u.Count("longname_entries", 1)
				perms, links, owner, group, size, date, ok := c17ParseLong(e.Long, e.Name)
				fi, lerr := os.Lstat(filepath.Join(dir, e.Name))
				if !ok || lerr != nil {
					u.Violation("longname:format:"+kind.String(), fmt.Sprintf("long name %q of %q does not parse", e.Long, e.Name), map[string]any{"long": e.Long})
					continue
				}
				st := fi.Sys().(*syscall.Stat_t)
				wantOwner, wantGroup := strconv.Itoa(int(e.Attrs.UID)), strconv.Itoa(int(e.Attrs.GID))
				wantLinks := uint64(st.Nlink)
				if kind == vfOS {
					if usr, err := user.LookupId(wantOwner); err == nil {
						wantOwner = usr.Username
					}
					if g, err := user.LookupGroupId(wantGroup); err == nil {
						wantGroup = g.Name
					}
				}
				var probs []string
				if perms != pxString(e.Attrs.Perm) {
					probs = append(probs, fmt.Sprintf("perms %q vs attrs %q", perms, pxString(e.Attrs.Perm)))
				}
				if size != e.Attrs.Size {
					probs = append(probs, fmt.Sprintf("size %d vs attrs %d", size, e.Attrs.Size))
				}
				if owner != wantOwner || group != wantGroup {
					probs = append(probs, fmt.Sprintf("owner %s:%s vs attrs %s:%s", owner, group, wantOwner, wantGroup))
				}
				if links != wantLinks {
					probs = append(probs, fmt.Sprintf("links %d vs %d", links, wantLinks))
				}
				if want := c17WantDate(int64(e.Attrs.Mtime), now); date != want {
					probs = append(probs, fmt.Sprintf("date %q vs mtime %q", date, want))
				}
				// and the attrs themselves vs the file system
				if e.Attrs.Perm != st.Mode&0xFFFF || e.Attrs.Size != uint64(fi.Size()) || int64(e.Attrs.Mtime) != fi.ModTime().Unix() || e.Attrs.UID != st.Uid || e.Attrs.GID != st.Gid {
					probs = append(probs, fmt.Sprintf("attrs %+v vs file system mode=%#o size=%d mtime=%d owner=%d:%d", e.Attrs, st.Mode, fi.Size(), fi.ModTime().Unix(), st.Uid, st.Gid))
				}
				if len(probs) > 0 {
					u.Violation("longname:"+kind.String()+":"+strings.SplitN(probs[0], " ", 2)[0], fmt.Sprintf("entry %q long name %q: %s", e.Name, e.Long, strings.Join(probs, "; ")), map[string]any{"long": e.Long, "attrs": fmt.Sprintf("%+v", e.Attrs)})
				}
				if got == 1 {
					u.Sample(map[string]any{"server": kind.String(), "long": e.Long, "attrs": fmt.Sprintf("%+v", e.Attrs)})
				}
			}
		}
		if got != len(names) {
			u.Violation("longname:count:"+kind.String(), fmt.Sprintf("listing returned %d entries, directory has %d", got, len(names)), nil)
		}
		rs.R.Phase(60*time.Second, vfPkt{Type: rfClose, ID: 1000, Handle: h})
		if msg := rs.End(60 * time.Second); msg != "" {
			u.Violation("longname:end", msg, nil)
		}
	}
}

// ---- listings of a request server whose entries do not come from a file system -------------

// c17VInfo is a virtual directory entry: no Sys() value, or a real file's FileInfo wrapped;
// the owner comes from FileInfoUidGid when hasOwner is set.
// c17AccountsWithOtherRealName: uids of host accounts whose real-name (GECOS) field is not their login name, or is
// empty while others are not (what a listing shows as the owner is the login name)
func c17AccountsWithOtherRealName() []int {
	b, err := os.ReadFile("/etc/passwd")
	if err != nil {
		return nil
	}
	var out []int
	for _, line := range strings.Split(string(b), "\n") {
		f := strings.Split(line, ":")
		if len(f) < 5 {
			continue
		}
		real := strings.SplitN(f[4], ",", 2)[0]
		if uid, err := strconv.Atoi(f[2]); err == nil && uid > 0 && real != f[0] && len(out) < 6 {
			out = append(out, uid)
		}
	}
	return out
}

type c17VInfo struct {
	name     string
	size     int64
	mode     os.FileMode
	mtime    time.Time
	sys      any
	uid, gid uint32
}

func (i c17VInfo) Name() string       { return i.name }
func (i c17VInfo) Size() int64        { return i.size }
func (i c17VInfo) Mode() os.FileMode  { return i.mode }
func (i c17VInfo) ModTime() time.Time { return i.mtime }
func (i c17VInfo) IsDir() bool        { return i.mode.IsDir() }
func (i c17VInfo) Sys() any           { return i.sys }

type c17VOwned struct{ c17VInfo }

func (i c17VOwned) Uid() uint32 { return i.uid }
func (i c17VOwned) Gid() uint32 { return i.gid }

type c17VHandlers struct{ l c17Lister }

func (h c17VHandlers) Filelist(r *Request) (ListerAt, error) { return h.l, nil }

// c17VirtualLongNames: entries that implement FileInfoUidGid (with and without a Sys() value) and
// entries without any owner information, listed by the request server; the long name's mode
// string, owner, size and date must agree with the ATTRS of the same entry, and the ATTRS with
// the entry.
func c17VirtualLongNames(u *vfUnit) {
	r := u.Rng
	now := time.Now()
	real, _ := os.Lstat(u.TempDir())
	var l c17Lister
	want := map[string]c17VInfo{}
	owned := map[string]bool{}
	for i := 0; i < 40; i++ {
		v := c17VInfo{name: fmt.Sprintf("v%03d", i), size: int64(r.Intn(1 << 30)), mode: os.FileMode(r.Intn(512)), uid: uint32(r.Intn(1 << 31)), gid: uint32(r.Intn(1 << 31))}
		switch r.Intn(4) {
		case 0:
			v.mode |= os.ModeDir
		case 1:
			v.mode |= os.ModeSetuid
		}
		if r.Bool() {
			v.mtime = now.AddDate(0, -6, -2-r.Intn(3000))
		} else {
			v.mtime = now.AddDate(0, 0, -r.Intn(170))
		}
		v.mtime = v.mtime.Truncate(time.Second)
		switch i % 3 {
		case 0: // no Sys() value, owner from FileInfoUidGid
			l = append(l, c17VOwned{v})
			owned[v.name] = true
		case 1: // a real file's Sys() value, owner remapped by FileInfoUidGid
			if real != nil {
				v.sys = real.Sys()
				if st, ok := real.Sys().(*syscall.Stat_t); ok {
					// the host object belongs to somebody (not always to 0:0): ids of its own, different from the remapped ones
					cp := *st
					cp.Uid, cp.Gid = []uint32{998, 0, 1000, 0}[(i/3)%4], []uint32{997, 1000, 0, 0}[(i/3)%4]
					v.sys = &cp
				}
			}
			if (i/3)%4 == 3 {
				// an entry passed on from another SFTP server: Sys() is this package's own *FileStat (what Client.ReadDir
				// returns), the ids are the same in both sources
				v.sys = &FileStat{Size: uint64(v.size), UID: v.uid, GID: v.gid, Mtime: uint32(v.mtime.Unix())}
			}
			l = append(l, c17VOwned{v})
			owned[v.name] = true
		default: // no owner information at all
			l = append(l, v)
		}
		want[v.name] = v
	}
	rs, err := vfRawConnect(vfSrvCfg{Kind: vfRS, H: Handlers{FileList: c17VHandlers{l}}}, vfPipeOpts{}, true)
	if err != nil {
		u.Inconclusive("connect: %v", err)
		return
	}
	rep, err := rs.R.Phase(60*time.Second, vfPkt{Type: rfOpendir, ID: 1, Path: "/"})
	if err != nil || len(rep) != 1 || rep[0].Type != rfHandle {
		u.Violation("longname:virtual:opendir", fmt.Sprintf("opendir: %v %v", rep, err), nil)
		return
	}
	h := rep[0].Handle
	got := 0
	for id := uint32(2); id < 100; id++ {
		rep, err := rs.R.Phase(60*time.Second, vfPkt{Type: rfReaddir, ID: id, Handle: h})
		if err != nil {
			u.Violation("longname:virtual:readdir", err.Error(), nil)
			return
		}
		if rep[0].Type == rfStatus {
			break
		}
		for _, e := range rep[0].Names {
			got++
			v, known := want[e.Name]
			u.Count("longname_entries", 1)
			u.Count("longname_virtual_entries", 1)
			u.Eval(fmt.Sprintf("long:virtual:%d:%#o", got%3, e.Attrs.Perm))
			perms, _, owner, group, size, date, ok := c17ParseLong(e.Long, e.Name)
			if !ok || !known {
				u.Violation("longname:virtual:format", fmt.Sprintf("long name %q of %q does not parse (known entry: %v)", e.Long, e.Name, known), nil)
				continue
			}
			var probs []string
			if perms != pxString(e.Attrs.Perm) {
				probs = append(probs, fmt.Sprintf("perms %q vs attrs %q", perms, pxString(e.Attrs.Perm)))
			}
			if size != e.Attrs.Size {
				probs = append(probs, fmt.Sprintf("size %d vs attrs %d", size, e.Attrs.Size))
			}
			if e.Attrs.Flags&rfAttrUIDGID != 0 && (owner != strconv.Itoa(int(e.Attrs.UID)) || group != strconv.Itoa(int(e.Attrs.GID))) {
				probs = append(probs, fmt.Sprintf("owner %s:%s vs attrs %d:%d", owner, group, e.Attrs.UID, e.Attrs.GID))
			}
			if wd := c17WantDate(int64(e.Attrs.Mtime), now); date != wd {
				probs = append(probs, fmt.Sprintf("date %q vs mtime %q", date, wd))
			}
			// the attributes vs the entry the lister supplied
			if e.Attrs.Size != uint64(v.size) || e.Attrs.Perm != fromFileModeRef(v.mode) || int64(e.Attrs.Mtime) != v.mtime.Unix() {
				probs = append(probs, fmt.Sprintf("attrs %+v vs the lister's entry size=%d mode=%v mtime=%d", e.Attrs, v.size, v.mode, v.mtime.Unix()))
			}
			if owned[e.Name] && (e.Attrs.Flags&rfAttrUIDGID == 0 || e.Attrs.UID != v.uid || e.Attrs.GID != v.gid) {
				probs = append(probs, fmt.Sprintf("attrs owner %d:%d (flags %#x) vs FileInfoUidGid %d:%d", e.Attrs.UID, e.Attrs.GID, e.Attrs.Flags, v.uid, v.gid))
			}
			if len(probs) > 0 {
				u.Violation("longname:virtual:"+strings.SplitN(probs[0], " ", 2)[0], fmt.Sprintf("entry %q long name %q: %s", e.Name, e.Long, strings.Join(probs, "; ")), map[string]any{"long": e.Long, "attrs": fmt.Sprintf("%+v", e.Attrs)})
			}
		}
	}
	if got != len(l) {
		u.Violation("longname:virtual:count", fmt.Sprintf("listing returned %d entries, the lister has %d", got, len(l)), nil)
	}
	rs.R.Phase(60*time.Second, vfPkt{Type: rfClose, ID: 1000, Handle: h})
	if msg := rs.End(60 * time.Second); msg != "" {
		u.Violation("longname:virtual:end", msg, nil)
	}
}
