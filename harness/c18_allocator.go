//go:build verif

package sftp

// C18 — The server buffer allocator is invisible.
// (1) The same determinate phased program is served by two instances of the same
// server, allocator off and on; the response streams must be byte-identical.
// (2) A shadow ownership table over the allocGet/allocRelease/pmSendEnd hook events:
// a page is never lent while owned, never released before the response of its
// request was written. (3) At every phase barrier, and after Serve, no page is
// still marked in use (except the one the receive loop holds for the next packet).

import (
	"bytes"
	"encoding/binary"
	"fmt"
	"io"
	"os"
	"path/filepath"
	"runtime"
	"strings"
	"sync"
	"sync/atomic"
	"testing"
	"time"
)

func TestVerifC18(t *testing.T) {
	vfMain(t, vfCheck{
		ID: "C18", Level: "exploration",
		Rule:        "seeded determinate phased programs (phases of up to 64 pipelined READs of files with distinct contents, WRITEs to disjoint ranges, mixed path/handle commands; one program in four with WithMaxTxPacket/WithRSMaxTxPacket raised to 64 KiB..300000 bytes and READs around that size and around the 256 KiB page size) served twice by the same server kind on identical state, allocator off and on (every second program with a second session of another server instance reading beside it); delays at the send/worker hooks, bounded transport. A class is (server, phase shape, buffer mode); non-trivial when pages were reused (allocGet returned a previously released page).",
		Assumptions: []string{"race detector on", "at quiescence the receive loop legitimately holds one page tagged with the next, not yet assigned order id"},
		Units: func(tier vfTier, seed uint64) int {
			if tier == vfThorough {
				return 3200
			}
			return 16
		},
		Shards: func(tier vfTier) int {
			if tier == vfThorough {
				return 14
			}
			return 8
		},
		Floors: map[string]int64{"programs": 40, "alloc_get_events": 3000, "page_reuses": 500, "phase_barriers_checked": 150},
		Run:    c18Run,
	})
}

type c18Shadow struct {
	mu       sync.Mutex
	owner    map[uintptr]uint32
	byOID    map[uint32][]uintptr
	sent     map[uint32]bool
	released map[uintptr]bool
	gets     int
	reuses   int
	problems []string
}

func (s *c18Shadow) on(ev vfHookEv) {
	s.mu.Lock()
	defer s.mu.Unlock()
	switch ev.Point {
	case vhAllocGet:
		s.gets++
		if o, ok := s.owner[ev.Page]; ok {
			s.problems = append(s.problems, fmt.Sprintf("double-lend: page %#x lent to order id %d while still owned by order id %d", ev.Page, ev.OID, o))
		}
		if s.released[ev.Page] {
			s.reuses++
		}
		s.owner[ev.Page] = ev.OID
		s.byOID[ev.OID] = append(s.byOID[ev.OID], ev.Page)
	case vhPmSendEnd:
		s.sent[ev.OID] = true
	case vhAllocRelease:
		if len(s.byOID[ev.OID]) > 0 && !s.sent[ev.OID] {
			s.problems = append(s.problems, fmt.Sprintf("early-release: pages of order id %d released before its response was written", ev.OID))
		}
		for _, p := range s.byOID[ev.OID] {
			delete(s.owner, p)
			s.released[p] = true
		}
		delete(s.byOID, ev.OID)
	case vhAllocFree:
		s.owner = map[uintptr]uint32{}
		s.byOID = map[uint32][]uintptr{}
	}
}

type c18Env struct {
	allocTwice bool // the allocator option is given more than once to the server
	nearWrap   bool // the server's packet counter is moved close to 2^32 before the program starts
	// option values shared by every server of the unit (the accept-loop idiom: one option list, many connections)
	allocOpt   ServerOption
	allocOptRS RequestServerOption
	maxTx      uint32 // server option WithMaxTxPacket / WithRSMaxTxPacket (0 = default)
	kind       vfKind
	dir        string
	tmpl       string
	store      *vfStore
	files      []string
	sizes      []int
}

func c18Fill(e *c18Env, u *vfUnit) {
	e.sizes = []int{0, 1, 100, 4000, 32768, 32769, 70000, 5000}
	if e.maxTx > 0 {
		e.sizes = append(e.sizes, 300000, 262145)
	}
	when := time.Unix(1600000000, 0)
	if e.kind == vfOS {
		vfChmodAll(e.dir)
		os.RemoveAll(e.dir)
		os.MkdirAll(filepath.Join(e.dir, "sub"), 0o755)
	} else {
		e.store = vfNewStore()
		e.store.Mkdir("/sub")
		var served atomic.Int64
		e.store.Delay = func(write bool, off int64) {
			if write {
				return
			}
			if off != c18StallOff {
				served.Add(1)
				return
			}
			// (bounded in logical steps; the other reads do not depend on this one)
			start := served.Load()
			for spin := 0; spin < 400000 && served.Load() < start+300; spin++ {
				runtime.Gosched()
			}
		}
	}
	e.files = nil
	for i, sz := range e.sizes {
		name := fmt.Sprintf("f%d", i)
		if e.kind == vfOS {
			p := filepath.Join(e.dir, name)
			os.WriteFile(p, vfPattern(uint64(i+1), 0, sz), 0o644)
			e.files = append(e.files, p)
		} else {
			e.store.Put("/"+name, vfPattern(uint64(i+1), 0, sz))
			e.files = append(e.files, "/"+name)
		}
	}
	if e.kind == vfOS {
		os.WriteFile(filepath.Join(e.dir, "sub", "x"), []byte("x"), 0o600)
		vfFixTimes("", e.dir, when)
	} else {
		e.store.Put("/sub/x", []byte("x"))
	}
}

type c18Phase []vfPkt

// c18Program builds phases; handle strings are predictable ("1".."n") because opens
// are done one per phase-0 slot in order and all succeed.
// c18StallOff: a READ at this offset of the store's files waits until many other reads have been served
const c18StallOff = 61111

func c18Program(r *vfRand, e *c18Env) []c18Phase {
	id := uint32(10)
	next := func() uint32 { id++; return id }
	root := "/"
	if e.kind == vfOS {
		root = e.dir
	}
	var phases []c18Phase
	// phase 0..: opens, strictly one at a time so that handle numbers are determinate
	nf := len(e.files)
	for i := 0; i < nf; i++ {
		phases = append(phases, c18Phase{{Type: rfOpen, ID: next(), Path: e.files[i], Pflags: rfRead_}})
	}
	wfile := filepath.Join(root, "w")
	phases = append(phases, c18Phase{{Type: rfOpen, ID: next(), Path: wfile, Pflags: rfRead_ | rfWrite_ | rfCreat_}})
	phases = append(phases, c18Phase{{Type: rfOpendir, ID: next(), Path: root}})
	hfile := func(i int) string { return fmt.Sprint(i + 1) }
	hw := fmt.Sprint(nf + 1)
	hdir := fmt.Sprint(nf + 2)
	nph := 6 + r.Intn(6)
	wbase := 0
	for p := 0; p < nph; p++ {
		var ph c18Phase
		switch r.Intn(3) {
		case 0: // many reads
			n := 1 + r.Intn(64)
			for i := 0; i < n; i++ {
				f := r.Intn(nf)
				off := 0
				if e.sizes[f] > 0 {
					off = r.Intn(e.sizes[f] + 10)
				}
				lens := []int{0, 1, 100, 4096, 32768, 40000}
				if e.maxTx > 0 {
					// reads around the configured maximum payload and around the 256 KiB page size
					lens = append(lens, 65536, int(e.maxTx)-1, int(e.maxTx), int(e.maxTx)+1, 262131, 262132, 262143, 262144, 300000)
					if i%2 == 0 {
						f, off = nf-2+r.Intn(2), r.Intn(30000)
					}
				}
				ph = append(ph, vfPkt{Type: rfRead, ID: next(), Handle: hfile(f), Off: uint64(off), Len: uint32(vfPick(r, lens))})
			}
		case 1: // writes to disjoint ranges of the write file + reads of other files
			n := 1 + r.Intn(40)
			for i := 0; i < n; i++ {
				l := 1 + r.Intn(3000)
				ph = append(ph, vfPkt{Type: rfWrite, ID: next(), Handle: hw, Off: uint64(wbase), Data: vfPattern(uint64(900+p), int64(wbase), l)})
				wbase += l
				if i%3 == 0 {
					f := r.Intn(nf)
					ph = append(ph, vfPkt{Type: rfRead, ID: next(), Handle: hfile(f), Off: uint64(r.Intn(e.sizes[f] + 1)), Len: 32768})
				}
			}
		case 2: // mixed commands (none conflicts with another in the phase)
			n := 1 + r.Intn(30)
			for i := 0; i < n; i++ {
				switch r.Intn(7) {
				case 0:
					ph = append(ph, vfPkt{Type: rfStat, ID: next(), Path: vfPick(r, e.files)})
				case 1:
					ph = append(ph, vfPkt{Type: rfLstat, ID: next(), Path: filepath.Join(root, "missing")})
				case 2:
					ph = append(ph, vfPkt{Type: rfFstat, ID: next(), Handle: hfile(r.Intn(nf))})
				case 3:
					ph = append(ph, vfPkt{Type: rfRealpath, ID: next(), Path: filepath.Join(root, "sub/../f1")})
				case 4:
					ph = append(ph, vfPkt{Type: rfRead, ID: next(), Handle: "bogus", Off: 0, Len: 10})
				case 5:
					ph = append(ph, vfPkt{Type: rfRead, ID: next(), Handle: hfile(r.Intn(nf)), Off: uint64(r.Intn(80000)), Len: 32768})
				case 6:
					ph = append(ph, vfPkt{Type: rfStat, ID: next(), Path: filepath.Join(root, "sub")})
				}
			}
		}
		phases = append(phases, ph)
	}
	if e.kind == vfRS {
		// a head-of-line request that takes long while hundreds of later ones complete behind it: their responses
		// (and the pages they live in) wait for it; when all are out nothing is in use any more
		var ph c18Phase
		ph = append(ph, vfPkt{Type: rfRead, ID: next(), Handle: hfile(6), Off: c18StallOff, Len: 10})
		for i := 0; i < 330; i++ {
			ph = append(ph, vfPkt{Type: rfRead, ID: next(), Handle: hfile(6), Off: uint64(i * 7), Len: 100})
		}
		phases = append(phases, ph)
	}
	// read back what was written (after the write phases), one listing, then closes
	if wbase > 0 {
		var ph c18Phase
		for off := 0; off < wbase; off += 20000 {
			ph = append(ph, vfPkt{Type: rfRead, ID: next(), Handle: hw, Off: uint64(off), Len: 20000})
		}
		phases = append(phases, ph)
	}
	phases = append(phases, c18Phase{{Type: rfReaddir, ID: next(), Handle: hdir}})
	var closes c18Phase
	for i := 0; i < nf+2; i++ {
		closes = append(closes, vfPkt{Type: rfClose, ID: next(), Handle: fmt.Sprint(i + 1)})
	}
	phases = append(phases, closes)
	return phases
}

// c18Serve runs the program against a fresh server and returns the concatenated response bodies per phase.
func c18Serve(u *vfUnit, e *c18Env, alloc bool, prog []c18Phase, buf int, shadow *c18Shadow, label string) ([][]byte, bool) {
	cfg := vfSrvCfg{Kind: e.kind, Alloc: alloc, MaxTx: e.maxTx, AllocOpt: e.allocOpt, AllocOptRS: e.allocOptRS, AllocTwice: e.allocTwice}
	if e.kind == vfRS {
		cfg.H = e.store.Handlers(vfHandlerOpt{OpenFile: true, CmdAll: true, ListAll: true})
	}
	if e.nearWrap {
		// a session that has already handled almost 2^32 packets: order ids wrap during the program
		cfg.PacketCount = 0xFFFFFFFF - 60
	}
	rs, err := vfRawConnect(cfg, vfPipeOpts{Buf: buf}, true)
	if err != nil {
		u.Inconclusive("connect: %v", err)
		return nil, false
	}
	if alloc && rs.S.alloc() != rs.S.connAlloc() {
		// (however often the option was given: one session, one allocator — pages are drawn and released on the same one)
		u.Violation("allocator-split:"+e.kind.String(), label+": the connection draws its pages from another allocator than the one responses release them to", nil)
	}
	var out [][]byte
	oid := uint32(1) // INIT
	if e.nearWrap {
		oid = cfg.PacketCount + 1 // INIT
	}
	for pi, ph := range prog {
		base := rs.R.Count()
		if e.kind == vfOS && len(ph) > 0 && ph[0].Type == rfReaddir {
			// the file written during the run has a run-time mtime; pin it so that both runs list the same attributes
			vfFixTimes("", e.dir, time.Unix(1600000000, 0))
		}
		var stream []byte
		for _, p := range ph {
			stream = append(stream, p.Frame()...)
		}
		sent := vfGo(func() { rs.R.Send(stream) })
		w, dump := rs.R.WaitCount(base+len(ph), 120*time.Second)
		<-sent
		if w != vfDone {
			if w == vfStuck {
				u.Violation("phase-stuck:"+e.kind.String(), fmt.Sprintf("%s phase %d: responses missing, process quiescent\n%s", label, pi, vfTrim(dump, 2000)), nil)
			} else {
				u.Inconclusive("%s: wall-clock cap", label)
			}
			rs.End(60 * time.Second)
			return out, false
		}
		oid += uint32(len(ph))
		var cat []byte
		for _, b := range rs.R.All()[base : base+len(ph)] {
			cat = append(cat, vfFrame(b)...)
		}
		out = append(out, cat)
		if alloc {
			// quiescence: nothing in use except the page held for the next packet
			a := rs.S.alloc()
			ok := false
			for spin := 0; spin < 2000; spin++ {
				used := a.countUsedPages()
				if used == 0 || (used == 1 && a.isRequestOrderIDUsed(oid+1)) {
					ok = true
					break
				}
				if spin > 50 {
					time.Sleep(100 * time.Microsecond)
				} else {
					runtime.Gosched()
				}
			}
			u.Count("phase_barriers_checked", 1)
			if !ok {
				if sig, dump := vfQuiescentSig(); sig != "" || true {
					u.Violation("pages-in-use-at-quiescence:"+e.kind.String(), fmt.Sprintf("%s after phase %d (all %d responses received): %d pages still marked in use, next order id %d holds one: %v\n%s", label, pi, len(ph), a.countUsedPages(), oid+1, a.isRequestOrderIDUsed(oid+1), vfTrim(dump, 1500)), map[string]any{"config": label, "phase": pi})
				}
			}
		}
	}
	// tail: after the well-formed program, one WRITE whose data length field claims more bytes than the packet
	// carries. Whatever a server makes of it, it makes the same of it with and without the allocator (the bytes
	// behind the packet's end are not part of the request): answers and the file's content are compared.
	{
		base := rs.R.Count()
		victim := e.files[2]
		if r, err := rs.R.Phase(60*time.Second, vfPkt{Type: rfOpen, ID: 0xFFF0, Path: victim, Pflags: rfWrite_}); err == nil && len(r) == 1 && r[0].Type == rfHandle {
			lie := vfPkt{Type: rfWrite, ID: 0xFFF1, Handle: r[0].Handle, Off: 0, Data: []byte("tiny")}.Frame()
			binary.BigEndian.PutUint32(lie[len(lie)-8:], 5000)
			rs.R.Send(lie)
			rs.R.WaitCount(base+2, 60*time.Second) // (returns at the end of the stream too)
		}
		var cat []byte
		for _, b := range rs.R.All()[min(base, rs.R.Count()):] {
			cat = append(cat, vfFrame(b)...)
		}
		var content []byte
		if e.kind == vfOS {
			content, _ = os.ReadFile(victim)
		} else {
			content, _ = e.store.Get(victim)
		}
		out = append(out, append(cat, content...))
		u.Count("programs_ending_with_a_lying_write", 1)
	}
	a := rs.S.alloc()
	if msg := rs.End(120 * time.Second); msg != "" {
		u.Violation("serve-end:"+e.kind.String(), label+": "+msg, nil)
		return out, false
	}
	if alloc && a != nil {
		if a.countUsedPages() != 0 || a.countAvailablePages() != 0 {
			u.Violation("pages-after-serve:"+e.kind.String(), fmt.Sprintf("%s: after Serve returned the allocator still has %d used and %d available pages", label, a.countUsedPages(), a.countAvailablePages()), nil)
		}
	}
	return out, true
}

func c18Run(u *vfUnit) {
	r := u.Rng
	kind := vfKind(u.Index % 2)
	e := &c18Env{kind: kind}
	if (u.Index/2)%2 == 1 {
		// half of the units: ONE option value for all servers of the unit
		e.allocOpt, e.allocOptRS = WithAllocator(), WithRSAllocator()
	}
	if kind == vfOS {
		e.dir = filepath.Join(u.TempDir(), "tree")
	}
	for pi := 0; pi < 4; pi++ {
		// the fourth program of a unit runs with a raised maximum payload (up to the 256 KiB page size)
		e.maxTx = 0
		if pi == 3 {
			e.maxTx = []uint32{65536, 262144, 100000, 300000, 262131}[(u.Index/2)%5]
			u.Count("programs_with_raised_max_payload", 1)
		}
		e.allocTwice = pi == 0 && (u.Index/4)%2 == 1
		e.nearWrap = pi == 2
		if e.nearWrap {
			u.Count("programs_crossing_the_order_id_wrap", 1)
		}
		c18Fill(e, u)
		prog := c18Program(r, e)
		buf := []int{0, 4096, 0}[(pi+u.Index)%3]
		label := fmt.Sprintf("%v/buf=%d/phases=%d/maxTx=%d", kind, buf, len(prog), e.maxTx)
		u.Eval(label + fmt.Sprint(pi))
		u.Count("programs", 1)
		total := 0
		for _, ph := range prog {
			total += len(ph)
		}
		u.Count("requests", int64(total))
		// reference run: allocator off, no perturbation
		ref, ok := c18Serve(u, e, false, prog, buf, nil, label+"/alloc=off")
		if !ok {
			continue
		}
		c18Fill(e, u)
		shadow := &c18Shadow{owner: map[uintptr]uint32{}, byOID: map[uint32][]uintptr{}, sent: map[uint32]bool{}, released: map[uintptr]bool{}}
		hc := vfHookCfg{Seed: r.Uint64(), MaxSleepUs: 150, NoLog: true, On: shadow.on,
			DelayPct: map[int]int{vhPmSendBegin: 25, vhPmSendEnd: 25, vhSrvWorker: 30, vhRsWorker: 30, vhPmReady: 15}}
		if pi%2 == 1 {
			// hook events carry order ids, not the allocator they belong to: with a second session running the
			// shadow table would mix two sessions up, so these programs rely on the byte comparison, the
			// quiescence checks and the second session's own content check
			hc.On = nil
		}
		hooks := vfInstallHooks(hc)
		// in every second program a second session of another server instance of the same kind, allocator on
		// as well, keeps reading in the background: allocators belong to one session, nothing may leak across
		var stopBg chan struct{}
		var bgDone chan string
		if pi%2 == 1 {
			stopBg = make(chan struct{})
			bgDone = c18Background(u, e, stopBg)
			u.Count("programs_with_concurrent_session", 1)
		}
		got, ok := c18Serve(u, e, true, prog, buf, shadow, label+"/alloc=on")
		if stopBg != nil {
			close(stopBg)
			if msg := <-bgDone; msg != "" {
				u.Violation("concurrent-session:"+kind.String(), label+": the session running beside this one (own server instance, own allocator): "+msg, map[string]any{"config": label})
			}
		}
		hooks.Uninstall()
		if !ok {
			continue
		}
		for i := range ref {
			if i < len(got) && !bytes.Equal(ref[i], got[i]) {
				d := vfFirstDiff(ref[i], got[i])
				if i >= len(prog) {
					u.Violation("responses-differ-after-lying-write:"+kind.String(), fmt.Sprintf("%s: a WRITE whose data length field claims 5000 bytes while the packet carries 4: answers + file content with and without the allocator differ at byte %d (lengths %d vs %d)", label, d, len(ref[i]), len(got[i])), map[string]any{"config": label, "unit": u.Index})
					break
				}
				var req string
				if len(prog[i]) > 0 {
					req = prog[i][0].String()
				}
				u.Violation("responses-differ:"+kind.String(), fmt.Sprintf("%s phase %d (%d requests, first %s): response streams with and without the allocator differ at byte %d (lengths %d vs %d)", label, i, len(prog[i]), req, d, len(ref[i]), len(got[i])), map[string]any{"config": label, "phase": i, "unit": u.Index})
				break
			}
		}
		shadow.mu.Lock()
		u.Count("alloc_get_events", int64(shadow.gets))
		u.Count("page_reuses", int64(shadow.reuses))
		for _, p := range shadow.problems {
			key := "shadow:" + p[:min(len(p), 12)] + ":" + kind.String()
			u.Violation(key, label+": "+p, map[string]any{"config": label})
		}
		shadow.mu.Unlock()
		if pi == 0 {
			u.Sample(map[string]any{"config": label, "requests": total, "alloc_gets": shadow.gets, "page_reuses": shadow.reuses, "oracle": "byte-equal response streams alloc on/off + shadow ownership table"})
		}
	}
	c18LingeringResponse(u, e)
}

// c18LingeringResponse: a session (allocator on) whose peer has read only the first bytes of a DATA response when
// it ends its sending side; while the rest of that response is still waiting to be read, a second session of a new
// server of the same kind (allocator on) starts in the same process and handles requests. The first peer then
// reads the rest: it must be the response to its READ, byte for byte — the memory a response is written from is
// nobody else's until it has been written.
func c18LingeringResponse(u *vfUnit, e *c18Env) {
	const size = 3000
	for round := 0; round < 2; round++ {
		label := fmt.Sprintf("%v/lingering-response/round=%d", e.kind, round)
		mk := func(tag string, fill byte) (vfSrvCfg, string, func()) {
			cfg := vfSrvCfg{Kind: e.kind, Alloc: true, AllocOpt: e.allocOpt, AllocOptRS: e.allocOptRS}
			content := bytes.Repeat([]byte{fill}, size)
			if e.kind == vfRS {
				st := vfNewStore()
				st.Put("/"+tag, content)
				cfg.H = st.Handlers(vfHandlerOpt{OpenFile: true, ListAll: true})
				return cfg, "/" + tag, func() {}
			}
			dir := filepath.Join(u.TempDir(), fmt.Sprintf("linger%d-%s", round, tag))
			os.MkdirAll(dir, 0o755)
			os.WriteFile(filepath.Join(dir, tag), content, 0o644)
			return cfg, filepath.Join(dir, tag), func() { os.RemoveAll(dir) }
		}
		// (round 1: another session of the same kind is in the middle of a burst all the while, holding dozens of pages:
		// whatever is kept between sessions is then in demand)
		var crowd *vfRawSession
		var cleanCrowd func()
		if round == 1 {
			cfgC, pathC, cl := mk("crowd", 'C')
			cleanCrowd = cl
			if rsC, err := vfRawConnect(cfgC, vfPipeOpts{Buf: 64}, true); err == nil {
				crowd = rsC
				if r, err := rsC.R.Phase(60*time.Second, vfPkt{Type: rfOpen, ID: 2, Path: pathC, Pflags: rfRead_}); err == nil && len(r) == 1 && r[0].Type == rfHandle {
					var burst []byte
					for i := 0; i < 48; i++ {
						burst = append(burst, vfPkt{Type: rfRead, ID: uint32(100 + i), Handle: r[0].Handle, Off: 0, Len: size}.Frame()...)
					}
					rsC.R.Send(burst)
				}
			}
		}
		cfg1, path1, clean1 := mk("first", 'B')
		ce, se := vfPipe(vfPipeOpts{Buf: 64})
		srv, err := vfServe(cfg1, se)
		if err != nil {
			u.Inconclusive("serve: %v", err)
			clean1()
			return
		}
		readN := func(n int) ([]byte, bool) {
			buf := make([]byte, n)
			var rerr error
			if w, _ := vfAwait(vfGo(func() { _, rerr = io.ReadFull(ce, buf) }), 60*time.Second); w != vfDone || rerr != nil {
				return nil, false
			}
			return buf, true
		}
		readFrame := func() (vfPkt, bool) {
			h, ok := readN(4)
			if !ok {
				return vfPkt{}, false
			}
			body, ok := readN(int(binary.BigEndian.Uint32(h)))
			if !ok {
				return vfPkt{}, false
			}
			p, perr := vfParse(body, true)
			return p, perr == nil
		}
		finish := func() {
			ce.ForceClose()
			se.ForceClose()
			vfAwait(srv.done, 60*time.Second)
			clean1()
		}
		ce.Write(vfPkt{Type: rfInit, Version: 3}.Frame())
		if p, ok := readFrame(); !ok || p.Type != rfVersion {
			u.Violation("lingering-response:setup", label+": no VERSION reply", nil)
			finish()
			return
		}
		ce.Write(vfPkt{Type: rfOpen, ID: 2, Path: path1, Pflags: rfRead_}.Frame())
		hp, ok := readFrame()
		if !ok || hp.Type != rfHandle {
			u.Violation("lingering-response:setup", fmt.Sprintf("%s: OPEN answered %v", label, hp), nil)
			finish()
			return
		}
		ce.Write(vfPkt{Type: rfRead, ID: 3, Handle: hp.Handle, Off: 0, Len: size}.Frame())
		head, ok := readN(4)
		if !ok {
			u.Violation("lingering-response:setup", label+": no reply to READ", nil)
			finish()
			return
		}
		// the peer ends its sending side; the server may or may not return from Serve before its response is read
		ce.CloseWrite()
		w1, _ := vfAwait(srv.done, 5*time.Second)
		vfCapFired.Store(false) // (this wait is a pause, not a question: none of its outcomes is reported)
		if w1 == vfDone {
			u.Count("serve_returned_with_a_response_unread", 1)
		}
		// second session: new server value, own transport, ordinary traffic with bytes of its own
		cfg2, path2, clean2 := mk("second-"+strings.Repeat("Z", 200), 'Z')
		rs2, err := vfRawConnect(cfg2, vfPipeOpts{}, true)
		if err == nil && srv.alloc() != nil && srv.alloc() == rs2.S.alloc() {
			// (both servers were configured with the same option VALUE when the unit shares one: an allocator belongs to
			// one session, order ids of different sessions mean nothing to each other)
			u.Violation("allocator-shared-between-sessions:"+e.kind.String(), label+": two servers configured with one allocator option value use one and the same allocator", nil)
		}
		if err == nil {
			var reqs []vfPkt
			for i := 0; i < 6; i++ {
				reqs = append(reqs, vfPkt{Type: rfStat, ID: uint32(50 + i), Path: path2})
			}
			reqs = append(reqs, vfPkt{Type: rfOpen, ID: 70, Path: path2, Pflags: rfRead_})
			resp, perr := rs2.R.Phase(60*time.Second, reqs...)
			if perr == nil && len(resp) == 7 && resp[6].Type == rfHandle {
				var reads []vfPkt
				for i := 0; i < 40; i++ {
					reads = append(reads, vfPkt{Type: rfRead, ID: uint32(71 + i), Handle: resp[6].Handle, Off: 0, Len: size})
				}
				rs2.R.Phase(60*time.Second, reads...)
			}
		}
		// now the first peer reads the rest of its response
		rest, ok := readN(int(binary.BigEndian.Uint32(head)))
		u.Count("lingering_responses_checked", 1)
		if !ok {
			u.Violation("lingering-response:lost", label+": the rest of a response whose first bytes had been sent never arrived", nil)
		} else if p, perr := vfParse(rest, true); perr != nil || p.Type != rfData || p.ID != 3 || !bytes.Equal(p.Data, bytes.Repeat([]byte{'B'}, size)) {
			u.Violation("lingering-response:bytes", fmt.Sprintf("%s: the response to READ id=3 (%d bytes 'B'), read after another session had started, is %v (%v): first difference at %d", label, size, p, perr, vfFirstDiff(p.Data, bytes.Repeat([]byte{'B'}, size))), nil)
		}
		if rs2 != nil {
			rs2.End(60 * time.Second)
		}
		clean2()
		finish()
		if crowd != nil {
			crowd.End(60 * time.Second)
		}
		if cleanCrowd != nil {
			cleanCrowd()
		}
	}
}

// c18Background serves files with known contents from a second server instance (allocator on) and keeps
// sending bursts of pipelined READs until stop is closed; every DATA reply must be the file's bytes.
func c18Background(u *vfUnit, e *c18Env, stop chan struct{}) chan string {
	kind := e.kind
	done := make(chan string, 1)
	cfg := vfSrvCfg{Kind: kind, Alloc: true, AllocOpt: e.allocOpt, AllocOptRS: e.allocOptRS}
	root := "/"
	var dir string
	sizes := []int{3000, 40000, 9000}
	if kind == vfRS {
		st := vfNewStore()
		for i, sz := range sizes {
			st.Put(fmt.Sprintf("/bg%d", i), vfPattern(uint64(70+i), 0, sz))
		}
		cfg.H = st.Handlers(vfHandlerOpt{OpenFile: true})
	} else {
		dir = filepath.Join(u.TempDir(), fmt.Sprintf("bg%d", u.Rng.Intn(1<<30)))
		os.MkdirAll(dir, 0o755)
		root = dir
		for i, sz := range sizes {
			os.WriteFile(filepath.Join(dir, fmt.Sprintf("bg%d", i)), vfPattern(uint64(70+i), 0, sz), 0o644)
		}
	}
	rs, err := vfRawConnect(cfg, vfPipeOpts{}, true)
	if err != nil {
		done <- ""
		return done
	}
	go func() {
		msg := ""
		defer func() {
			rs.End(60 * time.Second)
			if dir != "" {
				os.RemoveAll(dir)
			}
			done <- msg
		}()
		var handles []string
		for i := range sizes {
			r, err := rs.R.Phase(60*time.Second, vfPkt{Type: rfOpen, ID: uint32(i + 1), Path: filepath.Join(root, fmt.Sprintf("bg%d", i)), Pflags: rfRead_})
			if err != nil || len(r) != 1 || r[0].Type != rfHandle {
				msg = fmt.Sprintf("OPEN answered %v %v", r, err)
				return
			}
			handles = append(handles, r[0].Handle)
		}
		id := uint32(100)
		rr := vfNewRand(uint64(len(handles)) + 99)
		for round := 0; ; round++ {
			select {
			case <-stop:
				return
			default:
			}
			var burst []vfPkt
			for k := 0; k < 8; k++ {
				id++
				f := rr.Intn(len(sizes))
				burst = append(burst, vfPkt{Type: rfRead, ID: id, Handle: handles[f], Off: uint64(rr.Intn(sizes[f] - 2000)), Len: uint32(100 + rr.Intn(1900)), Pflags: uint32(f)})
			}
			resp, err := rs.R.Phase(120*time.Second, burst...)
			if err != nil || len(resp) != len(burst) {
				msg = fmt.Sprintf("burst %d: %d replies, err %v", round, len(resp), err)
				return
			}
			for k, p := range resp {
				q := burst[k]
				want := vfPattern(uint64(70+q.Pflags), int64(q.Off), int(q.Len))
				if p.Type != rfData || p.ID != q.ID || !bytes.Equal(p.Data, want) {
					msg = fmt.Sprintf("READ id=%d off=%d len=%d of its own file answered %s (first difference at byte %d)", q.ID, q.Off, q.Len, p, vfFirstDiff(p.Data, want))
					return
				}
			}
		}
	}()
	return done
}
