//go:build verif

package sftp

// C06 — The wire encoding is lossless and the two codecs agree.
// Three-way byte equality packet.go = filexfer = vfref for the same logical packet,
// round trips in each codec, length prefix = bytes that follow, and responses that
// packet.go only encodes decoded by the real client against a scripted peer.

import (
	"bytes"
	"encoding/binary"
	"fmt"
	"io"
	"os"
	"path/filepath"
	"reflect"
	"strings"
	"sync"
	"testing"
	"time"

	sshfx "github.com/pkg/sftp/internal/encoding/ssh/filexfer"
	"github.com/pkg/sftp/internal/encoding/ssh/filexfer/openssh"
)

func TestVerifC06(t *testing.T) {
	vfMain(t, vfCheck{
		ID: "C06", Level: "exploration",
		Rule:        "per unit: seeded logical packets of every type (requests, STATUS/HANDLE/DATA/NAME/ATTRS, INIT/VERSION, statvfs/posix-rename/hardlink/fsync, statvfs reply) with boundary-biased ids, offsets, strings (empty/long/non-UTF-8/NUL), payloads 0..70k, all 32 attribute-flag subsets with 0..5 extended pairs, 0..300 name entries; each is encoded by packet.go (through sendPacket), by filexfer and by the reference codec and decoded by each decoder. Plus live streams: real Client sessions against both servers, tapped in both directions; every frame must decode strictly with the reference codec and re-encode to the same bytes. A class is (packet type, attr-flag subset, size bucket).",
		Assumptions: []string{"the reference codec (harness/common_ref.go, written from the draft and OpenSSH PROTOCOL) is the spec oracle"},
		Units: func(tier vfTier, seed uint64) int {
			if tier == vfThorough {
				return 6000
			}
			return 16
		},
		Shards: func(tier vfTier) int {
			if tier == vfThorough {
				return 12
			}
			return 4
		},
		Floors: map[string]int64{"live_frames_checked": 3000, "packets": 15000, "attr_flag_subsets": 32, "packet_types": 28, "client_decodes": 200},
		Run:    c06Run,
	})
}

var c06Once = func() bool {
	openssh.RegisterExtensionStatVFS()
	openssh.RegisterExtensionPOSIXRename()
	openssh.RegisterExtensionHardlink()
	openssh.RegisterExtensionFSync()
	return true
}()

func c06FileStat(a vfAttrs) *FileStat {
	fs := &FileStat{Size: a.Size, Mode: a.Perm, Mtime: a.Mtime, Atime: a.Atime, UID: a.UID, GID: a.GID}
	for _, e := range a.Ext {
		fs.Extended = append(fs.Extended, StatExtended{ExtType: e[0], ExtData: e[1]})
	}
	return fs
}

func c06AttrsFromFileStat(flags uint32, fs *FileStat) vfAttrs {
	a := vfAttrs{Flags: flags}
	if fs == nil {
		return a
	}
	if flags&rfAttrSize != 0 {
		a.Size = fs.Size
	}
	if flags&rfAttrUIDGID != 0 {
		a.UID, a.GID = fs.UID, fs.GID
	}
	if flags&rfAttrPerm != 0 {
		a.Perm = fs.Mode
	}
	if flags&rfAttrTime != 0 {
		a.Atime, a.Mtime = fs.Atime, fs.Mtime
	}
	if flags&rfAttrExt != 0 {
		for _, e := range fs.Extended {
			a.Ext = append(a.Ext, [2]string{e.ExtType, e.ExtData})
		}
	}
	return a
}

// c06RawAttrs renders attrs as the []any value list packet.go's generic marshal understands.
func c06RawAttrs(a vfAttrs) []any {
	out := []any{a.Flags}
	if a.Flags&rfAttrSize != 0 {
		out = append(out, a.Size)
	}
	if a.Flags&rfAttrUIDGID != 0 {
		out = append(out, a.UID, a.GID)
	}
	if a.Flags&rfAttrPerm != 0 {
		out = append(out, a.Perm)
	}
	if a.Flags&rfAttrTime != 0 {
		out = append(out, a.Atime, a.Mtime)
	}
	if a.Flags&rfAttrExt != 0 {
		out = append(out, uint32(len(a.Ext)))
		for _, e := range a.Ext {
			out = append(out, e[0], e[1])
		}
	}
	return out
}

type c06Marshaler interface {
	MarshalBinary() ([]byte, error)
}

// c06ToPkg builds the packet.go value for a logical packet (nil if packet.go has no encoder for it).
func c06ToPkg(p vfPkt) c06Marshaler {
	switch p.Type {
	case rfInit:
		q := &sshFxInitPacket{Version: p.Version}
		for _, e := range p.Exts {
			q.Extensions = append(q.Extensions, extensionPair{e[0], e[1]})
		}
		return q
	case rfVersion:
		q := &sshFxVersionPacket{Version: p.Version}
		for _, e := range p.Exts {
			q.Extensions = append(q.Extensions, sshExtensionPair{e[0], e[1]})
		}
		return q
	case rfOpen:
		return &sshFxpOpenPacket{ID: p.ID, Path: p.Path, Pflags: p.Pflags, Flags: p.Attrs.Flags, Attrs: c06FileStat(p.Attrs)}
	case rfClose:
		return &sshFxpClosePacket{ID: p.ID, Handle: p.Handle}
	case rfRead:
		return &sshFxpReadPacket{ID: p.ID, Handle: p.Handle, Offset: p.Off, Len: p.Len}
	case rfWrite:
		return &sshFxpWritePacket{ID: p.ID, Handle: p.Handle, Offset: p.Off, Length: uint32(len(p.Data)), Data: p.Data}
	case rfLstat:
		return &sshFxpLstatPacket{ID: p.ID, Path: p.Path}
	case rfFstat:
		return &sshFxpFstatPacket{ID: p.ID, Handle: p.Handle}
	case rfSetstat:
		return &sshFxpSetstatPacket{ID: p.ID, Path: p.Path, Flags: p.Attrs.Flags, Attrs: c06FileStat(p.Attrs)}
	case rfFsetstat:
		return &sshFxpFsetstatPacket{ID: p.ID, Handle: p.Handle, Flags: p.Attrs.Flags, Attrs: c06FileStat(p.Attrs)}
	case rfOpendir:
		return &sshFxpOpendirPacket{ID: p.ID, Path: p.Path}
	case rfReaddir:
		return &sshFxpReaddirPacket{ID: p.ID, Handle: p.Handle}
	case rfRemove:
		return &sshFxpRemovePacket{ID: p.ID, Filename: p.Path}
	case rfMkdir:
		return &sshFxpMkdirPacket{ID: p.ID, Path: p.Path, Flags: p.Attrs.Flags}
	case rfRmdir:
		return &sshFxpRmdirPacket{ID: p.ID, Path: p.Path}
	case rfRealpath:
		return &sshFxpRealpathPacket{ID: p.ID, Path: p.Path}
	case rfStat:
		return &sshFxpStatPacket{ID: p.ID, Path: p.Path}
	case rfRename:
		return &sshFxpRenamePacket{ID: p.ID, Oldpath: p.Path, Newpath: p.Path2}
	case rfReadlink:
		return &sshFxpReadlinkPacket{ID: p.ID, Path: p.Path}
	case rfSymlink:
		return &sshFxpSymlinkPacket{ID: p.ID, Targetpath: p.Path, Linkpath: p.Path2}
	case rfExtended:
		switch p.Ext {
		case "statvfs@openssh.com":
			return &sshFxpStatvfsPacket{ID: p.ID, Path: p.Path}
		case "posix-rename@openssh.com":
			return &sshFxpPosixRenamePacket{ID: p.ID, Oldpath: p.Path, Newpath: p.Path2}
		case "hardlink@openssh.com":
			return &sshFxpHardlinkPacket{ID: p.ID, Oldpath: p.Path, Newpath: p.Path2}
		case "fsync@openssh.com":
			return &sshFxpFsyncPacket{ID: p.ID, Handle: p.Handle}
		}
	case rfStatus:
		return &sshFxpStatusPacket{ID: p.ID, StatusError: StatusError{Code: p.Code, msg: p.Msg, lang: p.Lang}}
	case rfHandle:
		return &sshFxpHandlePacket{ID: p.ID, Handle: p.Handle}
	case rfData:
		return &sshFxpDataPacket{ID: p.ID, Length: uint32(len(p.Data)), Data: p.Data}
	case rfName:
		q := &sshFxpNamePacket{ID: p.ID}
		for _, n := range p.Names {
			q.NameAttrs = append(q.NameAttrs, &sshFxpNameAttr{Name: n.Name, LongName: n.Long, Attrs: c06RawAttrs(n.Attrs)})
		}
		return q
	case rfExtendedReply:
		if p.VFS != nil {
			v := p.VFS
			return &StatVFS{ID: p.ID, Bsize: v.Bsize, Frsize: v.Frsize, Blocks: v.Blocks, Bfree: v.Bfree, Bavail: v.Bavail, Files: v.Files, Ffree: v.Ffree, Favail: v.Favail, Fsid: v.Fsid, Flag: v.Flag, Namemax: v.Namemax}
		}
	}
	return nil
}

func c06FxAttrs(a vfAttrs) sshfx.Attributes {
	x := sshfx.Attributes{Flags: a.Flags, Size: a.Size, UID: a.UID, GID: a.GID, Permissions: sshfx.FileMode(a.Perm), ATime: a.Atime, MTime: a.Mtime}
	for _, e := range a.Ext {
		x.ExtendedAttributes = append(x.ExtendedAttributes, sshfx.ExtendedAttribute{Type: e[0], Data: e[1]})
	}
	return x
}

func c06FromFxAttrs(x sshfx.Attributes) vfAttrs {
	a := vfAttrs{Flags: x.Flags}
	if x.Flags&rfAttrSize != 0 {
		a.Size = x.Size
	}
	if x.Flags&rfAttrUIDGID != 0 {
		a.UID, a.GID = x.UID, x.GID
	}
	if x.Flags&rfAttrPerm != 0 {
		a.Perm = uint32(x.Permissions)
	}
	if x.Flags&rfAttrTime != 0 {
		a.Atime, a.Mtime = x.ATime, x.MTime
	}
	if x.Flags&rfAttrExt != 0 {
		for _, e := range x.ExtendedAttributes {
			a.Ext = append(a.Ext, [2]string{e.Type, e.Data})
		}
	}
	return a
}

// c06ToFx encodes the logical packet with the filexfer codec.
func c06ToFx(p vfPkt) ([]byte, error, bool) {
	var pk interface {
		MarshalPacket(reqid uint32, b []byte) (header, payload []byte, err error)
	}
	exts := func() []*sshfx.ExtensionPair {
		var out []*sshfx.ExtensionPair
		for _, e := range p.Exts {
			out = append(out, &sshfx.ExtensionPair{Name: e[0], Data: e[1]})
		}
		return out
	}
	switch p.Type {
	case rfInit:
		b, err := (&sshfx.InitPacket{Version: p.Version, Extensions: exts()}).MarshalBinary()
		return b, err, true
	case rfVersion:
		b, err := (&sshfx.VersionPacket{Version: p.Version, Extensions: exts()}).MarshalBinary()
		return b, err, true
	case rfOpen:
		pk = &sshfx.OpenPacket{Filename: p.Path, PFlags: p.Pflags, Attrs: c06FxAttrs(p.Attrs)}
	case rfClose:
		pk = &sshfx.ClosePacket{Handle: p.Handle}
	case rfRead:
		pk = &sshfx.ReadPacket{Handle: p.Handle, Offset: p.Off, Length: p.Len}
	case rfWrite:
		pk = &sshfx.WritePacket{Handle: p.Handle, Offset: p.Off, Data: p.Data}
	case rfLstat:
		pk = &sshfx.LStatPacket{Path: p.Path}
	case rfFstat:
		pk = &sshfx.FStatPacket{Handle: p.Handle}
	case rfSetstat:
		pk = &sshfx.SetstatPacket{Path: p.Path, Attrs: c06FxAttrs(p.Attrs)}
	case rfFsetstat:
		pk = &sshfx.FSetstatPacket{Handle: p.Handle, Attrs: c06FxAttrs(p.Attrs)}
	case rfOpendir:
		pk = &sshfx.OpenDirPacket{Path: p.Path}
	case rfReaddir:
		pk = &sshfx.ReadDirPacket{Handle: p.Handle}
	case rfRemove:
		pk = &sshfx.RemovePacket{Path: p.Path}
	case rfMkdir:
		pk = &sshfx.MkdirPacket{Path: p.Path, Attrs: c06FxAttrs(p.Attrs)}
	case rfRmdir:
		pk = &sshfx.RmdirPacket{Path: p.Path}
	case rfRealpath:
		pk = &sshfx.RealPathPacket{Path: p.Path}
	case rfStat:
		pk = &sshfx.StatPacket{Path: p.Path}
	case rfRename:
		pk = &sshfx.RenamePacket{OldPath: p.Path, NewPath: p.Path2}
	case rfReadlink:
		pk = &sshfx.ReadLinkPacket{Path: p.Path}
	case rfSymlink:
		pk = &sshfx.SymlinkPacket{TargetPath: p.Path, LinkPath: p.Path2}
	case rfExtended:
		switch p.Ext {
		case "statvfs@openssh.com":
			pk = &openssh.StatVFSExtendedPacket{Path: p.Path}
		case "posix-rename@openssh.com":
			pk = &openssh.POSIXRenameExtendedPacket{OldPath: p.Path, NewPath: p.Path2}
		case "hardlink@openssh.com":
			pk = &openssh.HardlinkExtendedPacket{OldPath: p.Path, NewPath: p.Path2}
		case "fsync@openssh.com":
			pk = &openssh.FSyncExtendedPacket{Handle: p.Handle}
		}
	case rfStatus:
		pk = &sshfx.StatusPacket{StatusCode: sshfx.Status(p.Code), ErrorMessage: p.Msg, LanguageTag: p.Lang}
	case rfHandle:
		pk = &sshfx.HandlePacket{Handle: p.Handle}
	case rfData:
		pk = &sshfx.DataPacket{Data: p.Data}
	case rfName:
		q := &sshfx.NamePacket{}
		for _, n := range p.Names {
			q.Entries = append(q.Entries, &sshfx.NameEntry{Filename: n.Name, Longname: n.Long, Attrs: c06FxAttrs(n.Attrs)})
		}
		pk = q
	case rfAttrs:
		pk = &sshfx.AttrsPacket{Attrs: c06FxAttrs(p.Attrs)}
	case rfExtendedReply:
		if v := p.VFS; v != nil {
			pk = &openssh.StatVFSExtendedReplyPacket{BlockSize: v.Bsize, FragmentSize: v.Frsize, Blocks: v.Blocks, BlocksFree: v.Bfree, BlocksAvail: v.Bavail, Files: v.Files, FilesFree: v.Ffree, FilesAvail: v.Favail, FilesystemID: v.Fsid, MountFlags: v.Flag, MaxNameLength: v.Namemax}
		}
	}
	if pk == nil {
		return nil, nil, false
	}
	b, err := sshfx.ComposePacket(pk.MarshalPacket(p.ID, nil))
	return b, err, true
}

// c06FromFx decodes a frame body with filexfer and converts back to a logical packet.
func c06FromFx(body []byte) (vfPkt, error, bool) {
	p := vfPkt{Type: body[0]}
	getExts := func(in []*sshfx.ExtensionPair) [][2]string {
		var out [][2]string
		for _, e := range in {
			out = append(out, [2]string{e.Name, e.Data})
		}
		return out
	}
	switch p.Type {
	case rfInit:
		var q sshfx.InitPacket
		err := q.UnmarshalBinary(body[1:])
		p.Version, p.Exts = q.Version, getExts(q.Extensions)
		return p, err, true
	case rfVersion:
		var q sshfx.VersionPacket
		err := q.UnmarshalBinary(body[1:])
		p.Version, p.Exts = q.Version, getExts(q.Extensions)
		return p, err, true
	}
	if vfIsRequest(p.Type) {
		var rp sshfx.RequestPacket
		if err := rp.UnmarshalBinary(body); err != nil {
			return p, err, true
		}
		p.ID = rp.RequestID
		switch q := rp.Request.(type) {
		case *sshfx.OpenPacket:
			p.Path, p.Pflags, p.Attrs = q.Filename, q.PFlags, c06FromFxAttrs(q.Attrs)
		case *sshfx.ClosePacket:
			p.Handle = q.Handle
		case *sshfx.ReadPacket:
			p.Handle, p.Off, p.Len = q.Handle, q.Offset, q.Length
		case *sshfx.WritePacket:
			p.Handle, p.Off, p.Data = q.Handle, q.Offset, q.Data
		case *sshfx.LStatPacket:
			p.Path = q.Path
		case *sshfx.FStatPacket:
			p.Handle = q.Handle
		case *sshfx.SetstatPacket:
			p.Path, p.Attrs = q.Path, c06FromFxAttrs(q.Attrs)
		case *sshfx.FSetstatPacket:
			p.Handle, p.Attrs = q.Handle, c06FromFxAttrs(q.Attrs)
		case *sshfx.OpenDirPacket:
			p.Path = q.Path
		case *sshfx.ReadDirPacket:
			p.Handle = q.Handle
		case *sshfx.RemovePacket:
			p.Path = q.Path
		case *sshfx.MkdirPacket:
			p.Path, p.Attrs = q.Path, c06FromFxAttrs(q.Attrs)
		case *sshfx.RmdirPacket:
			p.Path = q.Path
		case *sshfx.RealPathPacket:
			p.Path = q.Path
		case *sshfx.StatPacket:
			p.Path = q.Path
		case *sshfx.RenamePacket:
			p.Path, p.Path2 = q.OldPath, q.NewPath
		case *sshfx.ReadLinkPacket:
			p.Path = q.Path
		case *sshfx.SymlinkPacket:
			p.Path, p.Path2 = q.TargetPath, q.LinkPath
		case *sshfx.ExtendedPacket:
			p.Ext = q.ExtendedRequest
			switch d := q.Data.(type) {
			case *openssh.StatVFSExtendedPacket:
				p.Path = d.Path
			case *openssh.POSIXRenameExtendedPacket:
				p.Path, p.Path2 = d.OldPath, d.NewPath
			case *openssh.HardlinkExtendedPacket:
				p.Path, p.Path2 = d.OldPath, d.NewPath
			case *openssh.FSyncExtendedPacket:
				p.Handle = d.Handle
			default:
				return p, fmt.Errorf("extended data decoded as %T", q.Data), true
			}
		default:
			return p, fmt.Errorf("unexpected %T", rp.Request), true
		}
		return p, nil, true
	}
	// responses
	var raw sshfx.RawPacket
	if err := raw.UnmarshalBinary(body); err != nil {
		return p, err, true
	}
	p.ID = raw.RequestID
	// a raw packet passed on under another request id (a relay renumbering): the id given to MarshalPacket is the one
	// on the wire, everything else stays byte for byte
	if len(body) >= 5 {
		other := raw.RequestID ^ 0x5A5A5A5A
		if re, rerr := sshfx.ComposePacket(raw.MarshalPacket(other, nil)); rerr != nil {
			return p, fmt.Errorf("re-marshalling the raw packet under id %d: %v", other, rerr), true
		} else {
			want := append([]byte(nil), body...)
			binary.BigEndian.PutUint32(want[1:5], other)
			if !bytes.Equal(re[4:], want) {
				return p, fmt.Errorf("raw packet re-marshalled under id %d is %x, expected %x", other, vfTrimB(re[4:], 40), vfTrimB(want, 40)), true
			}
		}
	}
	buf := &raw.Data
	switch p.Type {
	case rfStatus:
		var q sshfx.StatusPacket
		err := q.UnmarshalPacketBody(buf)
		p.Code, p.Msg, p.Lang = uint32(q.StatusCode), q.ErrorMessage, q.LanguageTag
		return p, err, true
	case rfHandle:
		var q sshfx.HandlePacket
		err := q.UnmarshalPacketBody(buf)
		p.Handle = q.Handle
		return p, err, true
	case rfData:
		var q sshfx.DataPacket
		err := q.UnmarshalPacketBody(buf)
		p.Data = q.Data
		return p, err, true
	case rfName:
		var q sshfx.NamePacket
		err := q.UnmarshalPacketBody(buf)
		for _, e := range q.Entries {
			p.Names = append(p.Names, vfName{Name: e.Filename, Long: e.Longname, Attrs: c06FromFxAttrs(e.Attrs)})
		}
		return p, err, true
	case rfAttrs:
		var q sshfx.AttrsPacket
		err := q.UnmarshalPacketBody(buf)
		p.Attrs = c06FromFxAttrs(q.Attrs)
		return p, err, true
	case rfExtendedReply:
		var q openssh.StatVFSExtendedReplyPacket
		err := q.UnmarshalPacketBody(buf)
		p.VFS = &vfStatVFS{q.BlockSize, q.FragmentSize, q.Blocks, q.BlocksFree, q.BlocksAvail, q.Files, q.FilesFree, q.FilesAvail, q.FilesystemID, q.MountFlags, q.MaxNameLength}
		return p, err, true
	}
	return p, nil, false
}

// c06FromPkg decodes a request body with packet.go's makePacket and converts back.
func c06FromPkg(body []byte) (vfPkt, error, bool) {
	p := vfPkt{Type: body[0]}
	if !vfIsRequest(p.Type) {
		if p.Type == rfData {
			var q sshFxpDataPacket
			err := q.UnmarshalBinary(body[1:])
			p.ID, p.Data = q.ID, q.Data
			return p, err, true
		}
		return p, nil, false
	}
	pkt, err := makePacket(rxPacket{fxp(body[0]), body[1:]})
	if err != nil {
		return p, err, true
	}
	p.ID = pkt.id()
	switch q := pkt.(type) {
	case *sshFxInitPacket:
		p.Version = q.Version
		for _, e := range q.Extensions {
			p.Exts = append(p.Exts, [2]string{e.Name, e.Data})
		}
	case *sshFxpOpenPacket:
		fs, err := q.unmarshalFileStat(q.Flags)
		if err != nil {
			return p, err, true
		}
		p.Path, p.Pflags, p.Attrs = q.Path, q.Pflags, c06AttrsFromFileStat(q.Flags, fs)
	case *sshFxpClosePacket:
		p.Handle = q.Handle
	case *sshFxpReadPacket:
		p.Handle, p.Off, p.Len = q.Handle, q.Offset, q.Len
	case *sshFxpWritePacket:
		p.Handle, p.Off, p.Data = q.Handle, q.Offset, q.Data
		if q.Length != uint32(len(q.Data)) {
			return p, fmt.Errorf("WRITE Length %d != len(Data) %d", q.Length, len(q.Data)), true
		}
	case *sshFxpLstatPacket:
		p.Path = q.Path
	case *sshFxpFstatPacket:
		p.Handle = q.Handle
	case *sshFxpSetstatPacket:
		fs, err := q.unmarshalFileStat(q.Flags)
		if err != nil {
			return p, err, true
		}
		p.Path, p.Attrs = q.Path, c06AttrsFromFileStat(q.Flags, fs)
	case *sshFxpFsetstatPacket:
		fs, err := q.unmarshalFileStat(q.Flags)
		if err != nil {
			return p, err, true
		}
		p.Handle, p.Attrs = q.Handle, c06AttrsFromFileStat(q.Flags, fs)
	case *sshFxpOpendirPacket:
		p.Path = q.Path
	case *sshFxpReaddirPacket:
		p.Handle = q.Handle
	case *sshFxpRemovePacket:
		p.Path = q.Filename
	case *sshFxpMkdirPacket:
		p.Path, p.Attrs.Flags = q.Path, q.Flags
	case *sshFxpRmdirPacket:
		p.Path = q.Path
	case *sshFxpRealpathPacket:
		p.Path = q.Path
	case *sshFxpStatPacket:
		p.Path = q.Path
	case *sshFxpRenamePacket:
		p.Path, p.Path2 = q.Oldpath, q.Newpath
	case *sshFxpReadlinkPacket:
		p.Path = q.Path
	case *sshFxpSymlinkPacket:
		p.Path, p.Path2 = q.Targetpath, q.Linkpath
	case *sshFxpExtendedPacket:
		p.Ext = q.ExtendedRequest
		switch d := q.SpecificPacket.(type) {
		case *sshFxpExtendedPacketStatVFS:
			p.Path = d.Path
		case *sshFxpExtendedPacketPosixRename:
			p.Path, p.Path2 = d.Oldpath, d.Newpath
		case *sshFxpExtendedPacketHardlink:
			p.Path, p.Path2 = d.Oldpath, d.Newpath
		}
	default:
		return p, fmt.Errorf("unexpected %T", pkt), true
	}
	return p, nil, true
}

func c06Norm(p vfPkt) vfPkt {
	if len(p.Data) == 0 {
		p.Data = nil
	}
	if len(p.Exts) == 0 {
		p.Exts = nil
	}
	if len(p.Attrs.Ext) == 0 {
		p.Attrs.Ext = nil
	}
	if len(p.Names) == 0 {
		p.Names = nil
	}
	for i := range p.Names {
		if len(p.Names[i].Attrs.Ext) == 0 {
			p.Names[i].Attrs.Ext = nil
		}
	}
	p.ExtData = nil
	return p
}

func c06Bucket(n int) string {
	switch {
	case n == 0:
		return "0"
	case n < 64:
		return "<64"
	case n < 4096:
		return "<4k"
	case n < 40000:
		return "<40k"
	}
	return "big"
}

// c06Info is an os.FileInfo with uid/gid and extended data, for packet.go's FileInfo-based encoders.
type c06Info struct {
	name string
	a    vfAttrs
}

func (i c06Info) Name() string       { return i.name }
func (i c06Info) Size() int64        { return int64(i.a.Size) }
func (i c06Info) Mode() os.FileMode  { return toFileMode(i.a.Perm) }
func (i c06Info) ModTime() time.Time { return time.Unix(int64(i.a.Mtime), 0) }
func (i c06Info) IsDir() bool        { return i.Mode().IsDir() }
func (i c06Info) Sys() any           { return nil }
func (i c06Info) Uid() uint32        { return i.a.UID }
func (i c06Info) Gid() uint32        { return i.a.GID }
func (i c06Info) Extended() []StatExtended {
	var out []StatExtended
	for _, e := range i.a.Ext {
		out = append(out, StatExtended{e[0], e[1]})
	}
	return out
}

var c06ReusedData sshfx.DataPacket
var c06ReusedWrite sshfx.WritePacket

func c06Run(u *vfUnit) {
	_ = c06Once
	r := u.Rng
	perUnit := 1400
	fail := func(key, what string, p vfPkt, extra map[string]any) {
		w := map[string]any{"packet": p.String(), "ref_hex": fmt.Sprintf("%x", vfTrimB(p.Frame(), 256))}
		for k, v := range extra {
			w[k] = v
		}
		u.Violation(key, what, w)
	}
	for i := 0; i < perUnit; i++ {
		kind := vfGenKinds[(i+u.Index)%len(vfGenKinds)]
		sub := (i/len(vfGenKinds) + u.Index*7) % 32
		p := vfGenPkt(r, kind, sub)
		ref := p.Frame()
		if len(ref) > 250*1024 {
			continue
		}
		u.Eval(fmt.Sprintf("%s/f%d/%s", kind, sub, c06Bucket(len(ref))))
		u.Count("packets", 1)
		u.SetAdd("packet_types", kind)
		if strings.Contains("OPEN SETSTAT FSETSTAT ATTRS NAME", kind) {
			u.SetAdd("attr_flag_subsets", fmt.Sprint(sub))
		}
		if i == 0 {
			u.Sample(map[string]any{"packet": p.String(), "wire_hex": fmt.Sprintf("%x", vfTrimB(ref, 96))})
		}
		// reference round trip (sanity of the oracle itself)
		if back, err := vfParse(ref[4:], true); err != nil || !reflect.DeepEqual(c06Norm(back), c06Norm(p)) {
			u.Violation("harness:ref-roundtrip:"+kind, fmt.Sprintf("reference codec does not round-trip %s: %v", p, err), nil)
			continue
		}
		// packet.go encode through sendPacket
		if m := c06ToPkg(p); m != nil {
			var buf bytes.Buffer
			if err := sendPacket(&buf, m.(interface {
				MarshalBinary() ([]byte, error)
			})); err != nil {
				fail("pkg-encode-error:"+kind, fmt.Sprintf("sendPacket(%s): %v", p, err), p, nil)
			} else {
				got := buf.Bytes()
				if len(got) >= 4 {
					if l := uint32(got[0])<<24 | uint32(got[1])<<16 | uint32(got[2])<<8 | uint32(got[3]); int(l) != len(got)-4 {
						fail("pkg-length-prefix:"+kind, fmt.Sprintf("sendPacket(%s): length prefix %d but %d bytes follow", p, l, len(got)-4), p, nil)
					}
				}
				if !bytes.Equal(got, ref) {
					fail("pkg-bytes:"+kind, fmt.Sprintf("packet.go encodes %s differently from the spec layout (first difference at byte %d of %d/%d)", p, vfFirstDiff(got, ref), len(got), len(ref)), p, map[string]any{"pkg_hex": fmt.Sprintf("%x", vfTrimB(got, 256))})
				}
			}
			// MarshalBinary alone must agree with sendPacket apart from the prefix
			if mb, err := m.MarshalBinary(); err == nil && len(mb) == len(ref) && !bytes.Equal(mb[4:], ref[4:]) {
				fail("pkg-marshalbinary:"+kind, fmt.Sprintf("MarshalBinary of %s differs from the spec layout at byte %d", p, vfFirstDiff(mb[4:], ref[4:])+4), p, nil)
			}
		}
		// filexfer encode
		if fb, err, ok := c06ToFx(p); ok {
			if err != nil {
				fail("fx-encode-error:"+kind, fmt.Sprintf("filexfer encode of %s: %v", p, err), p, nil)
			} else if !bytes.Equal(fb, ref) {
				fail("fx-bytes:"+kind, fmt.Sprintf("filexfer encodes %s differently from the spec layout (first difference at byte %d of %d/%d)", p, vfFirstDiff(fb, ref), len(fb), len(ref)), p, map[string]any{"fx_hex": fmt.Sprintf("%x", vfTrimB(fb, 256))})
			}
		}
		// decoders on the spec bytes
		if back, err, ok := c06FromPkg(ref[4:]); ok {
			want := c06Norm(p)
			if p.Type == rfMkdir {
				want.Attrs = vfAttrs{Flags: p.Attrs.Flags}
			}
			if p.Type == rfExtended && p.Ext == "fsync@openssh.com" {
				// the os-backed server does not implement fsync; makePacket reports it as unknown
			} else if err != nil {
				fail("pkg-decode-error:"+kind, fmt.Sprintf("packet.go cannot decode %s: %v", p, err), p, nil)
			} else if !reflect.DeepEqual(c06Norm(back), want) {
				fail("pkg-decode:"+kind, fmt.Sprintf("packet.go decodes %s as %s (%+v vs %+v)", p, back, vfTrim(fmt.Sprintf("%+v", back), 300), vfTrim(fmt.Sprintf("%+v", want), 300)), p, nil)
			}
		}
		if back, err, ok := c06FromFx(ref[4:]); ok {
			if err != nil {
				fail("fx-decode-error:"+kind, fmt.Sprintf("filexfer cannot decode %s: %v", p, err), p, nil)
			} else if !reflect.DeepEqual(c06Norm(back), c06Norm(p)) {
				fail("fx-decode:"+kind, fmt.Sprintf("filexfer decodes %s as %s", p, vfTrim(fmt.Sprintf("%+v", back), 400)), p, nil)
			}
		}
		// filexfer decodes DATA and WRITE payloads into the packet value it is given (re-using its Data
		// slice): decoding a stream of packets into ONE long-lived value must still be lossless
		if kind == "DATA" || kind == "WRITE" {
			buf := sshfx.NewBuffer(append([]byte(nil), ref[9:]...)) // after length, type and request id
			var got []byte
			var derr error
			if kind == "DATA" {
				derr = c06ReusedData.UnmarshalPacketBody(buf)
				got = c06ReusedData.Data
			} else {
				derr = c06ReusedWrite.UnmarshalPacketBody(buf)
				got = c06ReusedWrite.Data
			}
			u.Count("fx_reused_packet_decodes", 1)
			if derr != nil || !bytes.Equal(got, p.Data) {
				fail("fx-decode-reused-packet:"+kind, fmt.Sprintf("filexfer decoding %s into a re-used packet value yields %d payload bytes (err %v), sent %d", p, len(got), derr, len(p.Data)), p, nil)
			}
			// leave the value with a short length but spare capacity for the next decode
			if kind == "DATA" && len(c06ReusedData.Data) > 3 {
				c06ReusedData.Data = c06ReusedData.Data[:3]
			}
			if kind == "WRITE" && len(c06ReusedWrite.Data) > 3 {
				c06ReusedWrite.Data = c06ReusedWrite.Data[:3]
			}
		}
		// FileInfo-based encoders of packet.go (ATTRS reply and NAME entries)
		if kind == "ATTRS" || kind == "NAME" {
			a := vfGenAttrs(r, 15|(sub&16))
			a.Perm &= 0xFFFF
			if t := a.Perm & 0xF000; t != 0x1000 && t != 0x2000 && t != 0x4000 && t != 0x6000 && t != 0x8000 && t != 0xA000 && t != 0xC000 {
				a.Perm = a.Perm&0x0FFF | 0x8000
			}
			a.Atime = a.Mtime // FileInfo has a single time
			if a.Flags&rfAttrExt != 0 && len(a.Ext) == 0 {
				a.Flags &^= rfAttrExt
			}
			a.Size &= 1<<63 - 1
			info := c06Info{name: "n", a: a}
			var buf bytes.Buffer
			var want vfPkt
			if kind == "ATTRS" {
				sendPacket(&buf, &sshFxpStatResponse{ID: p.ID, info: info})
				want = vfPkt{Type: rfAttrs, ID: p.ID, Attrs: a}
			} else {
				sendPacket(&buf, &sshFxpNamePacket{ID: p.ID, NameAttrs: []*sshFxpNameAttr{{Name: "n", LongName: "l", Attrs: []any{info}}}})
				want = vfPkt{Type: rfName, ID: p.ID, Names: []vfName{{Name: "n", Long: "l", Attrs: a}}}
			}
			u.Count("fileinfo_encodes", 1)
			if !bytes.Equal(buf.Bytes(), want.Frame()) {
				fail("pkg-fileinfo-bytes:"+kind, fmt.Sprintf("packet.go encodes a FileInfo with attrs %+v differently from the spec layout (byte %d)", a, vfFirstDiff(buf.Bytes(), want.Frame())), want, map[string]any{"pkg_hex": fmt.Sprintf("%x", vfTrimB(buf.Bytes(), 200))})
			}
		}
	}
	c06ClientDecode(u)
	c06LiveStreams(u)
	c06ReusedExtended(u)
}

// c06ReusedExtended: a stream of EXTENDED_REPLY packets, and of EXTENDED packets of an unregistered
// extension, decoded by filexfer into ONE long-lived packet value each (their payload is kept in a
// Buffer that the value re-uses); the payload is read out after every decode, as a caller would.
// Every decode must deliver exactly the payload that was sent (decoding is a function of the bytes,
// not of what the value held before), and nothing may panic.
func c06ReusedExtended(u *vfUnit) {
	r := u.Rng.Fork()
	var reply sshfx.ExtendedReplyPacket
	var ext sshfx.ExtendedPacket
	for i := 0; i < 120; i++ {
		payload := r.Bytes([]int{0, 1, 8, 16, 40, 3, 88, 8}[i%8] + r.Intn(3))
		var got []byte
		var derr error
		what := ""
		func() {
			defer func() {
				if rec := recover(); rec != nil {
					derr = fmt.Errorf("panic: %v", rec)
				}
			}()
			var data sshfx.ExtendedData
			if i%2 == 0 {
				what = "EXTENDED_REPLY"
				body := vfPkt{Type: rfExtendedReply, ID: uint32(i), ExtData: payload}.Body()
				derr = reply.UnmarshalPacketBody(sshfx.NewBuffer(append([]byte(nil), body[5:]...)))
				data = reply.Data
			} else {
				what = "EXTENDED(unregistered)"
				body := vfPkt{Type: rfExtended, ID: uint32(i), Ext: "vf-unregistered@example.com", ExtData: payload}.Body()
				derr = ext.UnmarshalPacketBody(sshfx.NewBuffer(append([]byte(nil), body[5:]...)))
				data = ext.Data
			}
			if derr != nil {
				return
			}
			b, ok := data.(*sshfx.Buffer)
			if !ok {
				derr = fmt.Errorf("payload holder is %T", data)
				return
			}
			if b.Len() != len(payload) {
				derr = fmt.Errorf("Len() = %d", b.Len())
				return
			}
			got = append([]byte(nil), b.Bytes()...)
			// read the payload out (this advances the Buffer's read position)
			for b.Len() >= 8 {
				b.ConsumeUint64()
			}
			for b.Len() > 0 {
				b.ConsumeUint8()
			}
		}()
		u.Count("fx_reused_packet_decodes", 1)
		if derr != nil || !bytes.Equal(got, payload) {
			u.Violation("fx-decode-reused-packet:"+what, fmt.Sprintf("filexfer decoding packet #%d (%s, %d payload bytes) of a stream into a re-used packet value: got %d bytes (% x), err %v", i, what, len(payload), len(got), vfTrimB(got, 24), derr), nil)
			return
		}
	}
}

// c06LiveStreams: the bytes the package really puts on the wire. Real sessions (Client against the
// os-backed server and the request server) are tapped in both directions; every frame must decode
// strictly with the reference codec (nothing missing, nothing left over inside the frame) and the
// reference encoding of the decoded packet must be the very same bytes.
func c06LiveStreams(u *vfUnit) {
	r := u.Rng.Fork()
	for _, kind := range []vfKind{vfOS, vfRS} {
		var store *vfStore
		root := "/"
		sc := vfSrvCfg{Kind: kind, Alloc: u.Index%2 == 1}
		if kind == vfRS {
			store = vfNewStore()
			sc.H = store.Handlers(vfHandlerOpt{OpenFile: u.Index%4 < 2, CmdAll: true, ListAll: u.Index%8 < 4}) // half of the units: handlers without the optional Lstat/RealPath/Readlink interfaces (legacy fall-backs)
		} else {
			root = filepath.Join(u.TempDir(), "live")
			os.MkdirAll(root, 0o755)
		}
		sess, err := vfConnect(sc, vfPipeOpts{}, MaxPacketUnchecked([]int{100, 1000, 32768}[u.Index%3]))
		if err != nil {
			u.Inconclusive("live connect: %v", err)
			return
		}
		var mu sync.Mutex
		var frs [2]vfFramer
		var bad []string
		frames := 0
		check := func(dir int) func(p []byte) {
			return func(p []byte) {
				mu.Lock()
				defer mu.Unlock()
				for _, b := range frs[dir].Feed(p) {
					frames++
					q, err := vfParse(b, true)
					name := []string{"client->server", "server->client"}[dir]
					if err != nil {
						bad = append(bad, fmt.Sprintf("%s frame does not decode strictly: %v (% x)", name, err, vfTrimB(b, 64)))
						continue
					}
					if enc := q.Body(); !bytes.Equal(enc, b) {
						bad = append(bad, fmt.Sprintf("%s %s: wire bytes differ from the spec layout of the same packet at byte %d (wire % x / spec % x)", name, q, vfFirstDiff(enc, b), vfTrimB(b, 48), vfTrimB(enc, 48)))
					}
				}
			}
		}
		sess.Ctl.Tap(vfC2S, check(0))
		sess.Ctl.Tap(vfS2C, check(1))
		c := sess.C
		j := func(n string) string { return filepath.Join(root, n) }
		c.Mkdir(j("d"))
		for _, flags := range []int{os.O_RDWR | os.O_CREATE, os.O_WRONLY | os.O_CREATE | os.O_TRUNC, os.O_RDWR} {
			if f, err := c.OpenFile(j("d/f"), flags); err == nil {
				f.Write(r.Bytes(1 + r.Intn(3000)))
				f.WriteAt(r.Bytes(10), 5)
				f.Chmod(0o640)
				f.Truncate(2000)
				f.Stat()
				f.Sync()
				if flags&os.O_RDWR != 0 {
					// reads that end at, straddle and start beyond the end of the file
					for _, o := range []int64{0, 1500, 1990, 1999, 2000, 2500} {
						f.ReadAt(make([]byte, 50+r.Intn(600)), o)
					}
				}
				f.Close()
			}
		}
		if f, err := c.Open(j("d/f")); err == nil {
			f.ReadAt(make([]byte, 700), 1600)
			f.Read(make([]byte, 5000))
			f.Seek(0, io.SeekStart)
			f.WriteTo(io.Discard)
			f.Close()
		}
		c.Stat(j("d/f"))
		c.Lstat(j("d/nope"))
		c.Symlink("f", j("d/l"))
		c.ReadLink(j("d/l"))
		c.Link(j("d/f"), j("d/h"))
		c.Rename(j("d/h"), j("d/h2"))
		c.PosixRename(j("d/h2"), j("d/h3"))
		c.Chtimes(j("d/f"), time.Unix(1500000000, 0), time.Unix(1500000001, 0))
		c.Chown(j("d/f"), 0, 0)
		c.Truncate(j("d/f"), 10)
		c.SetExtendedData(j("d/f"), []StatExtended{{"a@b", "1"}, {"c@d", ""}})
		c.RealPath(j("d/../d/./f"))
		c.StatVFS(j("d"))
		for k := 0; k < 5+r.Intn(140); k++ {
			if f, err := c.Create(j(fmt.Sprintf("d/e%03d", k))); err == nil {
				f.Close()
			}
		}
		c.ReadDir(j("d"))
		c.ReadDir(j("nope"))
		// several goroutines on the one connection: payload-carrying requests (two writes on the transport)
		// beside requests without payload; the stream must still be a sequence of whole frames
		if cf, err := c.OpenFile(j("d/conc"), os.O_RDWR|os.O_CREATE); err == nil {
			var wg sync.WaitGroup
			for g := 0; g < 4; g++ {
				wg.Add(1)
				go func(g int) {
					defer wg.Done()
					gr := vfNewRand(uint64(u.Index*10 + g))
					for it := 0; it < 25; it++ {
						switch (g + it) % 3 {
						case 0:
							cf.WriteAt(gr.Bytes(10+gr.Intn(300)), int64(gr.Intn(2000)))
						case 1:
							c.Lstat(j("d/f"))
						default:
							cf.ReadAt(make([]byte, 1+gr.Intn(200)), int64(gr.Intn(500)))
						}
					}
				}(g)
			}
			if w, dump := vfAwait(vfGo(func() { wg.Wait() }), 120*time.Second); w != vfDone {
				// a torn stream leaves both ends waiting for bytes that never come
				mu.Lock()
				nbad := len(bad)
				first := ""
				if nbad > 0 {
					first = bad[0]
				}
				mu.Unlock()
				if w == vfStuck {
					u.Violation("live-stream-stuck:"+kind.String(), fmt.Sprintf("%v session: concurrent calls never return (%d frames failed the strict decode so far; first: %s)\n%s", kind, nbad, first, vfTrim(dump, 1500)), nil)
				} else {
					u.Inconclusive("live stream: wall-clock cap")
				}
				sess.cEnd.ForceClose()
				sess.sEnd.ForceClose()
				return
			}
			cf.Close()
		}
		c.Remove(j("d/l"))
		c.RemoveDirectory(j("d"))
		c.RemoveAll(j("d"))
		sess.Ctl.Tap(vfC2S, nil)
		sess.Ctl.Tap(vfS2C, nil)
		if msg := sess.Close(); msg != "" {
			u.Violation("live-session-close", msg, nil)
		}
		mu.Lock()
		u.Count("live_frames_checked", int64(frames))
		for i, b := range bad {
			if i < 5 {
				u.Violation("live-wire-bytes:"+kind.String(), fmt.Sprintf("%v session: %s", kind, b), nil)
			}
		}
		mu.Unlock()
		if kind == vfOS {
			vfChmodAll(root)
			os.RemoveAll(root)
		}
	}
}

// c06ClientDecode: responses that packet.go only encodes are decoded by the real
// client path; a scripted peer serves reference-encoded replies.
func c06ClientDecode(u *vfUnit) {
	r := u.Rng.Fork()
	type exp struct {
		kind string
		want vfPkt
	}
	var mu = make(chan exp, 1)
	var cur exp
	peer := &vfPeer{Handler: func(req vfPkt, raw []byte) []byte {
		w := cur.want
		w.ID = req.ID
		return w.Frame()
	}}
	c, _, _, ce, err := vfPeerClient(peer, vfPipeOpts{})
	if err != nil {
		u.Inconclusive("client-decode connect: %v", err)
		return
	}
	_ = mu
	for i := 0; i < 40; i++ {
		sub := r.Intn(32)
		a := vfGenAttrs(r, sub)
		key := ""
		switch i % 5 {
		case 0: // Stat -> ATTRS
			cur = exp{"ATTRS", vfPkt{Type: rfAttrs, Attrs: a}}
			fi, err := c.Stat("/x")
			if err != nil {
				key = fmt.Sprintf("Stat: %v", err)
			} else if got := c06AttrsFromFileStat(a.Flags, fi.Sys().(*FileStat)); !reflect.DeepEqual(c06Norm(vfPkt{Attrs: got}), c06Norm(vfPkt{Attrs: a})) {
				key = fmt.Sprintf("Stat decoded %+v, sent %+v", got, a)
			}
		case 1: // ReadDir -> NAME then EOF
			names := []vfName{}
			for j := r.Intn(20); j >= 0; j-- {
				names = append(names, vfName{Name: fmt.Sprintf("n%d", j), Long: vfGenStr(r), Attrs: vfGenAttrs(r, r.Intn(32))})
			}
			step := 0
			peer.Handler = func(req vfPkt, raw []byte) []byte {
				switch req.Type {
				case rfOpendir:
					return vfPkt{Type: rfHandle, ID: req.ID, Handle: "dh"}.Frame()
				case rfReaddir:
					step++
					if step == 1 {
						return vfPkt{Type: rfName, ID: req.ID, Names: names}.Frame()
					}
					return vfStatusFrame(req.ID, rfEOF, "eof")
				}
				return vfStatusFrame(req.ID, rfOK, "")
			}
			ents, err := c.ReadDir("/d")
			if err != nil || len(ents) != len(names) {
				key = fmt.Sprintf("ReadDir: %d entries, err %v (sent %d)", len(ents), err, len(names))
			} else {
				for j, e := range ents {
					got := c06AttrsFromFileStat(names[j].Attrs.Flags, e.Sys().(*FileStat))
					if e.Name() != names[j].Name || !reflect.DeepEqual(c06Norm(vfPkt{Attrs: got}), c06Norm(vfPkt{Attrs: names[j].Attrs})) {
						key = fmt.Sprintf("ReadDir entry %d decoded %q %+v, sent %q %+v", j, e.Name(), got, names[j].Name, names[j].Attrs)
					}
				}
			}
			peer.Handler = func(req vfPkt, raw []byte) []byte {
				w := cur.want
				w.ID = req.ID
				return w.Frame()
			}
		case 2: // ReadLink -> NAME(1)
			target := vfGenStr(r)
			cur = exp{"NAME1", vfPkt{Type: rfName, Names: []vfName{{Name: target, Long: target, Attrs: a}}}}
			got, err := c.ReadLink("/l")
			if err != nil || got != target {
				key = fmt.Sprintf("ReadLink decoded %q err %v, sent %q", vfTrim(got, 50), err, vfTrim(target, 50))
			}
		case 3: // StatVFS -> extended reply
			v := &vfStatVFS{vfGenU64(r), vfGenU64(r), vfGenU64(r), vfGenU64(r), vfGenU64(r), vfGenU64(r), vfGenU64(r), vfGenU64(r), vfGenU64(r), vfGenU64(r), vfGenU64(r)}
			cur = exp{"VFS", vfPkt{Type: rfExtendedReply, VFS: v}}
			got, err := c.StatVFS("/")
			if err != nil {
				key = fmt.Sprintf("StatVFS: %v", err)
			} else if (vfStatVFS{got.Bsize, got.Frsize, got.Blocks, got.Bfree, got.Bavail, got.Files, got.Ffree, got.Favail, got.Fsid, got.Flag, got.Namemax}) != *v {
				key = fmt.Sprintf("StatVFS decoded %+v, sent %+v", got, v)
			}
		case 4: // status with message -> error text
			msg := fmt.Sprintf("msg-%d", r.Intn(1000))
			cur = exp{"STATUS", vfPkt{Type: rfStatus, Code: rfFailure, Msg: msg, Lang: "en"}}
			err := c.Mkdir("/m")
			se, ok := err.(*StatusError)
			if !ok || se.Code != rfFailure || se.msg != msg || se.lang != "en" {
				key = fmt.Sprintf("Mkdir error %v, sent FAILURE %q", err, msg)
			}
		}
		u.Eval(fmt.Sprintf("client-decode/%d/f%d", i%5, sub))
		u.Count("client_decodes", 1)
		if key != "" {
			u.Violation(fmt.Sprintf("client-decode:%d", i%5), key, map[string]any{"op": i % 5})
		}
	}
	ce.Close()
	peer.Stop()
	c.Close()
}
