//go:build verif

package sftp

// C05 — Operations through Client and Server behave like package os.
// Differential: tree A is served by the os-backed Server and driven through the
// Client; tree B is driven by a reference interpreter written with package os.
// After EVERY step the outcome category, the returned value and a recursive
// snapshot of both trees are compared.

import (
	"errors"
	"fmt"
	"os"
	"path"
	"path/filepath"
	"sort"
	"strings"
	"syscall"
	"testing"
	"time"
)

func TestVerifC05(t *testing.T) {
	vfMain(t, vfCheck{
		ID: "C05", Level: "exploration",
		Rule:        "seeded operation sequences (length 5..60) over the names {a,b,c,d,d/x,d/y,d/e,d/e/z,l,m,nope} with all 21 listed operations (OpenFile with every access/creation flag combination), so that collisions, missing parents, non-empty directories, dangling and directory symlinks and files-where-directories-are-expected occur; absolute paths and working-directory-relative paths (WithServerWorkingDirectory; relative names also climb out of the working directory with ..); privileged and unprivileged callers (the latter with restrictive chmods 000/100/200/300/500/555 on files and directories). Documented differences are encoded: Mkdir has no mode (0755), Create is 0666 before umask 022, RemoveAll errors on a missing path, RealPath is lexical, StatVFS compares the stable fields; the empty path and ill-formed glob patterns are excluded. A class is (operation, outcome category on the os side, path style).",
		Assumptions: []string{"umask 022; half of the units run every call of both sides as root, the other half as uid/gid 65534 (effective ids of all threads switched with AllThreadsSyscall; snapshots and clean-up as root), so that permission outcomes occur", "unprivileged units never give a directory read permission without search permission: package os can still list the names of such a directory (Glob, Walk) while an SFTP listing carries attributes and fails as a whole — a property of the protocol, not an outcome the statement compares", "when os.RemoveAll fails only because its openat-based implementation cannot open the PARENT directory for reading, the reference is the algorithm of the portable implementation in the same package (os/removeall_noat.go) on package os primitives", "go1.25.0's os.RemoveAll leaks an internal errSymlink when a symbolic link cannot be unlinked; it is classified as the permission failure it stands for", "unordered results (ReadDir, Glob, Walk) are compared as multisets; atime and un-set mtimes are not compared"},
		Units: func(tier vfTier, seed uint64) int {
			if tier == vfThorough {
				return 8000
			}
			return 24
		},
		Shards: func(tier vfTier) int {
			if tier == vfThorough {
				return 12
			}
			return 8
		},
		Floors: map[string]int64{"steps": 4000, "operations": 21, "outcome_categories": 3, "sequences": 200},
		Run:    c05Run,
	})
}

type c05Step struct {
	op             string
	p1, p2         string // tree-relative
	flags          int
	mode           os.FileMode
	size           int64
	t              int64
	verbatimTarget bool
	badPattern     bool // Glob: the last element is ill-formed (compared only where a lazy matcher reports it too)
	rootMeta       bool // Glob, absolute style: the pattern's special character sits in the element directly below "/"
}

// c05RootMeta rewrites an absolute pattern so that its first element carries a special character matching itself
// ("/tmp/x/*" -> "/tm?/x/*"): the directory part the matcher has to list is then "/" itself.
func c05RootMeta(pat string) string {
	if !strings.HasPrefix(pat, "/") || len(pat) < 3 {
		return pat
	}
	end := strings.IndexByte(pat[1:], '/')
	if end < 1 {
		return pat
	}
	first := pat[1 : 1+end]
	if strings.ContainsAny(first, "*?[\\") {
		return pat
	}
	return "/" + first[:len(first)-1] + "?" + pat[1+end:]
}

func (s c05Step) String() string {
	if s.rootMeta {
		return fmt.Sprintf("Glob(root-level special character, then %q)", s.p1)
	}
	switch s.op {
	case "OpenFile":
		return fmt.Sprintf("OpenFile(%q, %#x)", s.p1, s.flags)
	case "Chmod":
		return fmt.Sprintf("Chmod(%q, %v)", s.p1, s.mode)
	case "Truncate":
		return fmt.Sprintf("Truncate(%q, %d)", s.p1, s.size)
	case "SetSizeAndMode":
		return fmt.Sprintf("one SETSTAT(%q, size=%d, mode=%v)", s.p1, s.size, s.mode)
	case "Chtimes":
		return fmt.Sprintf("Chtimes(%q, %d)", s.p1, s.t)
	case "Rename", "PosixRename", "Link", "Symlink":
		return fmt.Sprintf("%s(%q, %q)", s.op, s.p1, s.p2)
	}
	return fmt.Sprintf("%s(%q)", s.op, s.p1)
}

// c05Atime: the access time that goes with a modification time in a Chtimes step (five seconds later; the epoch and
// one second after it get the epoch itself, so that both times of one call can be 0)
func c05Atime(t int64) int64 {
	if t <= 1 {
		return 0
	}
	return t + 5
}

func vfPick64(r *vfRand, l []int64) int64 { return l[r.Intn(len(l))] }

func vfPick2(r *vfRand, l [][2]string) (string, string) {
	x := l[r.Intn(len(l))]
	return x[0], x[1]
}

var errC05NotCompared = errors.New("vf: outcome not comparable")

func c05Category(err error) string {
	switch {
	case err == nil:
		return "ok"
	case c05IsErrSymlink(err):
		// go1.25.0's os.RemoveAll leaks its internal errSymlink (whose Error method panics) when
		// an entry that is a symbolic link cannot be unlinked: removeAllFrom only gets there after
		// unlinkat failed with EPERM or EACCES (EISDIR is impossible for a link), i.e. "permission".
		return "permission"
	case errors.Is(err, os.ErrNotExist):
		return "not-exist"
	case errors.Is(err, os.ErrPermission):
		return "permission"
	}
	return "other"
}

func c05IsErrSymlink(err error) bool {
	if pe, ok := err.(*os.PathError); ok {
		err = pe.Err
	}
	return fmt.Sprintf("%T", err) == "os.errSymlink"
}

func c05ErrText(err error) (s string) {
	defer func() {
		if recover() != nil {
			s = fmt.Sprintf("<%T>", err)
		}
	}()
	if err == nil {
		return "<nil>"
	}
	return err.Error()
}

var c05Names = []string{"a", "b", "c", "d", "d/x", "d/y", "d/e", "d/e/z", "l", "m", "nope", "nope/q", "a/sub", "...", "d/...."}

func c05Gen(r *vfRand, n int, unpriv, relative bool) []c05Step {
	var out []c05Step
	names := c05Names
	if relative {
		// working-directory-relative names may climb out of the working directory (it has a parent inside the compared tree)
		names = append(append([]string(nil), names...), "../s", "../s/t", "d/../../s", "../s", "../wd/a")
	}
	pick := func() string { return vfPick(r, names) }
	ops := []string{"Mkdir", "MkdirAll", "Create", "OpenFile", "Remove", "RemoveDirectory", "RemoveAll", "Rename", "PosixRename", "Link", "Symlink", "ReadLink", "Stat", "Lstat", "Chmod", "Chtimes", "Truncate", "ReadDir", "Glob", "Walk", "RealPath", "StatVFS", "SetSizeAndMode"}
	for i := 0; i < n; i++ {
		s := c05Step{op: ops[r.Intn(len(ops))], p1: pick(), p2: pick()}
		if unpriv && i >= 6 && r.Intn(7) == 0 {
			s.op = "Chmod"
		}
		// bias towards building structure early
		if i < 6 {
			s.op = vfPick(r, []string{"Mkdir", "Create", "Symlink", "MkdirAll", "Create", "Mkdir"})
		}
		switch s.op {
		case "MkdirAll":
			// now and then a path that ends in (or runs through) a "." element. Not for unprivileged callers: the
			// server cleans "m/." to "m" before touching the file system, the kernel needs search permission on m
			// to resolve it: a difference of lexical path handling, not of the operation.
			if r.Intn(3) == 0 && !unpriv {
				s.p1 = vfPick(r, []string{"nope/.", "d/e/.", "c/./sub/.", "d/./y", "nope/./q/./.", "a/.", "m/.", "d/e/z/."})
			}
		case "OpenFile":
			acc := vfPick(r, []int{os.O_RDONLY, os.O_WRONLY, os.O_RDWR})
			s.flags = acc
			if r.Bool() {
				s.flags |= os.O_CREATE
				if r.Intn(3) == 0 {
					s.flags |= os.O_EXCL
				}
			}
			if r.Intn(3) == 0 && acc != os.O_RDONLY {
				s.flags |= os.O_TRUNC
			}
			if r.Intn(4) == 0 && acc != os.O_RDONLY {
				s.flags |= os.O_APPEND
			}
		case "Chmod":
			s.mode = os.FileMode(vfPick(r, []int{0o600, 0o644, 0o755, 0o700, 0o444, 0o000, 0o4755, 0o1777}))
			if unpriv && r.Intn(2) == 0 {
				// modes that matter to an unprivileged caller: no search, no read, no write
				s.mode = os.FileMode(vfPick(r, []int{0o000, 0o500, 0o300, 0o400, 0o200, 0o100, 0o555, 0o700}))
				s.p1 = vfPick(r, []string{"d", "d", "d/e", "a", "d/x", "b", "c"})
			}
			if s.mode&0o4000 != 0 {
				s.mode = s.mode&0o777 | os.ModeSetuid
			}
			if s.mode&0o1000 != 0 {
				s.mode = s.mode&0o777 | os.ModeSticky
			}
		case "Truncate":
			s.size = int64(vfPick(r, []int{0, 1, 5, 100}))
		case "SetSizeAndMode":
			// one request that carries a size and a mode: applied like Truncate followed by Chmod
			s.size = int64(vfPick(r, []int{0, 3, 50}))
			s.mode = os.FileMode(vfPick(r, []int{0o444, 0o600, 0o400, 0o644, 0o200}))
			s.p1 = vfPick(r, []string{"a", "b", "c", "d/x", "d/y", "nope", "d"})
		case "Chtimes":
			s.t = 1400000000 + int64(r.Intn(100000))
			if r.Intn(4) == 0 {
				// times on the far side of 2038 and near the end of the 32-bit range, and near the epoch
				s.t = vfPick64(r, []int64{1 << 31, 1<<31 + 12345, 3000000000 + int64(r.Intn(1000)), 1<<32 - 10, 1, 86400, 0, 0})
			}
		case "Symlink":
			// target text: relative name, or a path inside the tree, or dangling
			s.verbatimTarget = r.Bool()
			s.p1 = vfPick(r, []string{"a", "d", "d/x", "nope", "b"})
			s.p2 = vfPick(r, []string{"l", "m", "d/y", "c"})
			if r.Intn(5) == 0 {
				// now and then a link that is (part of) a cycle: l -> l, or l -> m and m -> l
				s.verbatimTarget = true
				s.p1, s.p2 = vfPick2(r, [][2]string{{"l", "l"}, {"m", "l"}, {"l", "m"}, {"y", "d/y"}})
			}
		case "Glob":
			// (also patterns whose only special character is the escape, in the last element or in the directory part)
			s.p1 = vfPick(r, []string{"*", "d/*", "?", "[ab]", "*/*", "d/e/*", "nope/*", "d/[xy]", "a*", "\\a", "d/\\x", "\\d/x", "\\d/*", "d/e/\\z", "[a-c]", "d/?", "l/*", "*/x"})
			// absolute style, now and then: a special character already in the element directly below "/"
			s.rootMeta = !relative && r.Intn(4) == 0
			if !s.rootMeta && r.Intn(6) == 0 {
				// an ill-formed last element below a literal directory part
				s.p1 = vfPick(r, []string{"[", "d/[", "d/[a-", "d/e/[^", "d/x\\", "[a", "d/*["})
				s.badPattern = true
			}
		case "Walk":
			s.p1 = vfPick(r, []string{".", "d", "d/e", "a"})
		}
		// now and then a name whose last element is longer than any file system takes (NAME_MAX)
		if s.op != "Glob" && s.op != "Walk" && s.op != "Symlink" && r.Intn(30) == 0 {
			long := strings.Repeat("n", 300)
			s.p1 = vfPick(r, []string{long, "d/" + long, long + "/q"})
		}
		out = append(out, s)
	}
	return out
}

type c05Side struct {
	root     string // where the names of a sequence resolve (the server's working directory in the relative style)
	top      string // the tree that is compared and cleaned up (root, or its parent in the relative style)
	relative bool
}

func (s c05Side) abs(rel string) string { return filepath.Join(s.root, rel) }

// arg renders the path argument as the caller passes it (absolute, or relative to the working directory).
func (s c05Side) arg(rel string) string {
	if s.relative {
		return rel
	}
	if rel == "." {
		return s.root
	}
	return filepath.Join(s.root, rel)
}

func c05Norm(s c05Side, v string) string { return strings.ReplaceAll(v, s.top, "TOP") }

func c05InfoStr(fi os.FileInfo) string {
	if fi == nil {
		return "<nil>"
	}
	size := fi.Size()
	if fi.IsDir() {
		size = 0 // directory sizes are file-system bookkeeping
	}
	return fmt.Sprintf("%s|%v|%d", fi.Name(), fi.Mode(), size)
}

// c05Ref executes a step with package os on tree B ("cwd = root" semantics for relative arguments).
func c05Ref(s c05Side, st c05Step) (string, error) {
	p1, p2 := s.abs(st.p1), s.abs(st.p2)
	switch st.op {
	case "Mkdir":
		return "", os.Mkdir(p1, 0o755)
	case "MkdirAll":
		// the path text as the caller wrote it (filepath.Join would clean "." elements away). Names with ".."
		// stay cleaned on both sides: the server resolves ".." lexically, the kernel physically, which differs
		// by design when an element before the ".." does not exist (yet).
		if !strings.Contains(st.p1, "..") {
			return "", os.MkdirAll(s.root+"/"+st.p1, 0o755)
		}
		return "", os.MkdirAll(p1, 0o755)
	case "Create":
		f, err := os.OpenFile(p1, os.O_RDWR|os.O_CREATE|os.O_TRUNC, 0o666)
		if err == nil {
			f.Close()
		}
		return "", err
	case "OpenFile":
		f, err := os.OpenFile(p1, st.flags, 0o644)
		if err == nil {
			f.Close()
		}
		return "", err
	case "Remove":
		return "", os.Remove(p1)
	case "RemoveDirectory":
		// package os has no rmdir of its own: the corresponding call is os.Remove
		// (the server implements SSH_FXP_RMDIR with it)
		return "", os.Remove(p1)
	case "RemoveAll":
		if _, err := os.Lstat(p1); err != nil {
			return "", err // documented: an error is returned if the path does not exist
		}
		err := os.RemoveAll(p1)
		if pe, ok := err.(*os.PathError); ok && pe.Op == "open" && pe.Path == filepath.Dir(p1) {
			// The openat-based implementation of os.RemoveAll first opens the PARENT directory for
			// reading and gives up if it cannot (nothing has been touched at that point). That is an
			// artefact of one implementation, not what package os documents ("removes path and any
			// children it contains ... removes everything it can but returns the first error"): the
			// portable implementation in the same package (removeall_noat.go) needs no read access
			// to the parent. Its algorithm, on package os primitives, is the reference here.
			return "", c05RemoveAllNoAt(p1)
		}
		return "", err
	case "Rename", "PosixRename":
		return "", os.Rename(p1, p2)
	case "Link":
		return "", os.Link(p1, p2)
	case "Symlink":
		target := st.p1
		if !st.verbatimTarget {
			target = s.arg(st.p1)
		}
		return "", os.Symlink(target, p2)
	case "ReadLink":
		v, err := os.Readlink(p1)
		return c05Norm(s, v), err
	case "Stat":
		fi, err := os.Stat(p1)
		if err != nil {
			return "", err
		}
		return c05InfoStr(fi), nil
	case "Lstat":
		fi, err := os.Lstat(p1)
		if err != nil {
			return "", err
		}
		return c05InfoStr(fi), nil
	case "Chmod":
		return "", os.Chmod(p1, st.mode)
	case "Chtimes":
		return "", os.Chtimes(p1, time.Unix(c05Atime(st.t), 0), time.Unix(st.t, 0))
	case "Truncate":
		return "", os.Truncate(p1, st.size)
	case "SetSizeAndMode":
		if err := os.Truncate(p1, st.size); err != nil {
			return "", err
		}
		return "", os.Chmod(p1, st.mode)
	case "ReadDir":
		ents, err := os.ReadDir(p1)
		if err != nil {
			return "", err
		}
		var l []string
		for _, e := range ents {
			fi, err := e.Info()
			if err != nil {
				return "", err
			}
			l = append(l, c05InfoStr(fi))
		}
		sort.Strings(l)
		return strings.Join(l, ","), nil
	case "Glob":
		pat := filepath.Join(s.root, st.p1)
		if st.rootMeta {
			pat = c05RootMeta(pat)
		}
		if st.badPattern {
			// filepath.Glob reports an ill-formed pattern at once; the client's matcher (like filepath.Glob before
			// go1.16) when it first applies the element to a name. Compared where both must report it: the directory
			// part exists, can be listed and has an entry.
			pat = s.root + "/" + st.p1 // (filepath.Join would clean a trailing backslash-less element the same way; keep the text)
			if ents, derr := os.ReadDir(filepath.Dir(pat)); derr != nil || len(ents) == 0 {
				return "", errC05NotCompared
			}
		}
		m, err := filepath.Glob(pat)
		var l []string
		for _, x := range m {
			rel, _ := filepath.Rel(s.root, x)
			l = append(l, rel)
		}
		sort.Strings(l)
		return strings.Join(l, ","), err
	case "Walk":
		var l []string
		if _, err := os.Lstat(p1); err != nil {
			return "", err
		}
		// the set of paths visited: filepath.Walk reports a directory it cannot read once
		// (with the error), the client's Walker twice (entry, then the error) — API shape, not outcome
		seen := map[string]bool{}
		filepath.Walk(p1, func(p string, info os.FileInfo, err error) error {
			if info != nil {
				rel, _ := filepath.Rel(s.root, p)
				if !seen[rel] {
					seen[rel] = true
					l = append(l, rel)
				}
			}
			return nil
		})
		sort.Strings(l)
		return strings.Join(l, ","), nil
	case "RealPath":
		// documented: lexical canonicalisation against the server's working directory
		return c05Norm(s, path.Clean(filepath.Join(s.root, st.p1))), nil
	case "StatVFS":
		var st_ syscall.Statfs_t
		if err := syscall.Statfs(p1, &st_); err != nil {
			return "", &os.PathError{Op: "statfs", Path: p1, Err: err}
		}
		return fmt.Sprintf("bsize=%d frsize=%d blocks=%d files=%d namemax=%d", st_.Bsize, st_.Frsize, st_.Blocks, st_.Files, st_.Namelen), nil
	}
	return "", fmt.Errorf("unknown op %s", st.op)
}

// c05RemoveAllNoAt follows os/removeall_noat.go (directories here are far below its batch size).
func c05RemoveAllNoAt(path string) error {
	err := os.Remove(path)
	if err == nil || os.IsNotExist(err) {
		return nil
	}
	dir, serr := os.Lstat(path)
	if serr != nil {
		if pe, ok := serr.(*os.PathError); ok && (os.IsNotExist(pe.Err) || pe.Err == syscall.ENOTDIR) {
			return nil
		}
		return serr
	}
	if !dir.IsDir() {
		return err
	}
	fd, oerr := os.Open(path)
	if oerr != nil {
		if os.IsNotExist(oerr) {
			return nil
		}
		return oerr
	}
	names, readErr := fd.Readdirnames(-1)
	fd.Close()
	var first error
	for _, name := range names {
		if e := c05RemoveAllNoAt(path + "/" + name); e != nil && first == nil {
			first = e
		}
	}
	if first == nil {
		first = readErr
	}
	err1 := os.Remove(path)
	if err1 == nil || os.IsNotExist(err1) {
		return nil
	}
	if first == nil {
		first = err1
	}
	return first
}

// c05Sut executes the step through the Client on tree A.
func c05Sut(c *Client, s c05Side, st c05Step) (string, error) {
	p1, p2 := s.arg(st.p1), s.arg(st.p2)
	switch st.op {
	case "Mkdir":
		return "", c.Mkdir(p1)
	case "MkdirAll":
		if !s.relative && !strings.Contains(st.p1, "..") {
			return "", c.MkdirAll(s.root + "/" + st.p1)
		}
		return "", c.MkdirAll(p1)
	case "Create":
		f, err := c.Create(p1)
		if err == nil {
			f.Close()
		}
		return "", err
	case "OpenFile":
		f, err := c.OpenFile(p1, st.flags)
		if err == nil {
			f.Close()
		}
		return "", err
	case "Remove":
		return "", c.Remove(p1)
	case "RemoveDirectory":
		return "", c.RemoveDirectory(p1)
	case "RemoveAll":
		return "", c.RemoveAll(p1)
	case "Rename":
		return "", c.Rename(p1, p2)
	case "PosixRename":
		return "", c.PosixRename(p1, p2)
	case "Link":
		return "", c.Link(p1, p2)
	case "Symlink":
		target := st.p1
		if !st.verbatimTarget {
			target = s.arg(st.p1)
		}
		return "", c.Symlink(target, p2)
	case "ReadLink":
		v, err := c.ReadLink(p1)
		return c05Norm(s, v), err
	case "Stat":
		fi, err := c.Stat(p1)
		if err != nil {
			return "", err
		}
		return c05InfoStr(fi), nil
	case "Lstat":
		fi, err := c.Lstat(p1)
		if err != nil {
			return "", err
		}
		return c05InfoStr(fi), nil
	case "Chmod":
		return "", c.Chmod(p1, st.mode)
	case "Chtimes":
		return "", c.Chtimes(p1, time.Unix(c05Atime(st.t), 0), time.Unix(st.t, 0))
	case "Truncate":
		return "", c.Truncate(p1, st.size)
	case "SetSizeAndMode":
		return "", c.setstat(p1, sshFileXferAttrSize|sshFileXferAttrPermissions, struct {
			Size uint64
			Perm uint32
		}{uint64(st.size), toChmodPerm(st.mode)})
	case "ReadDir":
		ents, err := c.ReadDir(p1)
		if err != nil {
			return "", err
		}
		var l []string
		for _, e := range ents {
			l = append(l, c05InfoStr(e))
		}
		sort.Strings(l)
		return strings.Join(l, ","), nil
	case "Glob":
		if st.rootMeta {
			p1 = c05RootMeta(p1)
		}
		m, err := c.Glob(p1)
		var l []string
		for _, x := range m {
			rel := x
			if !s.relative {
				rel, _ = filepath.Rel(s.root, x)
			}
			l = append(l, rel)
		}
		sort.Strings(l)
		return strings.Join(l, ","), err
	case "Walk":
		if _, err := c.Lstat(p1); err != nil {
			return "", err
		}
		w := c.Walk(p1)
		var l []string
		seen := map[string]bool{}
		for w.Step() {
			if w.Stat() == nil {
				continue
			}
			rel := w.Path()
			if !s.relative {
				rel, _ = filepath.Rel(s.root, rel)
			}
			rel = path.Clean(rel)
			if !seen[rel] {
				seen[rel] = true
				l = append(l, rel)
			}
		}
		sort.Strings(l)
		return strings.Join(l, ","), nil
	case "RealPath":
		v, err := c.RealPath(p1)
		return c05Norm(s, v), err
	case "StatVFS":
		v, err := c.StatVFS(p1)
		if err != nil {
			return "", err
		}
		return fmt.Sprintf("bsize=%d frsize=%d blocks=%d files=%d namemax=%d", v.Bsize, v.Frsize, v.Blocks, v.Files, v.Namemax), nil
	}
	return "", fmt.Errorf("unknown op %s", st.op)
}

func c05Snap(s c05Side) string {
	t := vfSnapshot(s.top, vfSnapOpts{})
	var keys []string
	for k := range t {
		keys = append(keys, k)
	}
	sort.Strings(keys)
	var b strings.Builder
	for _, k := range keys {
		n := t[k]
		n.Target = c05Norm(s, n.Target)
		fmt.Fprintf(&b, "%s %+v\n", k, n)
	}
	return b.String()
}

func c05Run(u *vfUnit) {
	// the process umask is the server's and the reference's alike; it varies over masks that contain 022 (with a mask
	// that lets group or other write through, Create's documented 0666-before-umask and the server's 0644 differ)
	syscall.Umask([]int{0o022, 0o022, 0o027, 0o077}[(u.Index/4)%4])
	defer syscallUmask()
	r := u.Rng
	relative := u.Index%2 == 1
	base := u.TempDir()
	// Units 2,3 mod 4 run the calls of BOTH sides as uid/gid 65534, so that permission outcomes
	// (unsearchable, unreadable, unwritable directories and files) occur; snapshots and
	// clean-up are taken as root. Needs a cgo-free binary and a scratch directory that
	// "nobody" can reach; otherwise the unit runs privileged and says so in the counters.
	unpriv := u.Index%4 >= 2
	if unpriv {
		for p, k := base, 0; k < 3 && p != "/" && p != filepath.Clean(os.TempDir()); p, k = filepath.Dir(p), k+1 {
			os.Chmod(p, 0o755)
		}
		probe := filepath.Join(base, "probe")
		os.Mkdir(probe, 0o755)
		os.Chown(probe, 65534, 65534)
		if err := vfSetEffective(65534, 65534); err != nil {
			unpriv = false
		} else {
			_, e1 := os.Stat(probe)
			e2 := os.WriteFile(filepath.Join(probe, "w"), []byte("x"), 0o644)
			if err := vfSetEffective(0, 0); err != nil {
				panic("cannot regain root: " + err.Error())
			}
			if e1 != nil || e2 != nil {
				unpriv = false
			}
		}
		os.RemoveAll(probe)
		if !unpriv {
			u.Count("unprivileged_unavailable", 1)
		}
	}
	drop := func() {
		if unpriv {
			if err := vfSetEffective(65534, 65534); err != nil {
				panic("cannot drop privileges: " + err.Error())
			}
		}
	}
	raise := func() {
		if unpriv {
			if err := vfSetEffective(0, 0); err != nil {
				panic("cannot regain root: " + err.Error())
			}
		}
	}
	defer raise()
	nSeq := 10
	for si := 0; si < nSeq; si++ {
		A := c05Side{top: filepath.Join(base, fmt.Sprintf("A%d", si)), relative: relative}
		B := c05Side{top: filepath.Join(base, fmt.Sprintf("B%d", si)), relative: relative}
		A.root, B.root = A.top, B.top
		if relative {
			A.root, B.root = filepath.Join(A.top, "wd"), filepath.Join(B.top, "wd")
		}
		os.MkdirAll(A.root, 0o755)
		os.MkdirAll(B.root, 0o755)
		if unpriv {
			for _, d := range []string{A.top, B.top, A.root, B.root} {
				os.Chown(d, 65534, 65534)
			}
		}
		cfg := vfSrvCfg{Kind: vfOS, Alloc: si%2 == 0}
		if relative {
			cfg.WorkDir = A.root
		}
		sess, err := vfConnect(cfg, vfPipeOpts{})
		if err != nil {
			u.Inconclusive("connect: %v", err)
			return
		}
		if si == 0 && !relative {
			// objects a client cannot create through SFTP: devices of the host (read-only comparisons)
			for _, hp := range []string{"/dev/null", "/dev/zero", "/dev/tty", "/dev", "/dev/stdin", "/proc/self/exe", "/dev/shm"} {
				for _, lst := range []bool{false, true} {
					var wi, gi os.FileInfo
					var we, ge error
					if lst {
						wi, we = os.Lstat(hp)
						gi, ge = sess.C.Lstat(hp)
					} else {
						wi, we = os.Stat(hp)
						gi, ge = sess.C.Stat(hp)
					}
					u.Count("host_object_stats", 1)
					if c05Category(we) != c05Category(ge) || (we == nil && (wi.Mode() != gi.Mode() || wi.Name() != gi.Name())) {
						u.Violation("value:Stat-host-object", fmt.Sprintf("Stat/Lstat(lstat=%v) of %s: package os says (%v, %v), the client (%v, %v)", lst, hp, c05InfoStr(wi), we, c05InfoStr(gi), ge), nil)
					}
				}
			}
		}
		steps := c05Gen(r, 5+r.Intn(56), unpriv, relative)
		u.Count("sequences", 1)
		var history []string
		style := "abs"
		if relative {
			style = "rel"
		}
		if unpriv {
			style += "-unpriv"
		}
		for i, st := range steps {
			if unpriv && st.op == "Chmod" && st.mode&0o400 != 0 && st.mode&0o100 == 0 {
				// a directory that can be read but not searched yields names without attributes:
				// package os can still list names (Glob, Walk), an SFTP listing carries attributes
				// and fails as a whole. That is the protocol, not an outcome the statement compares;
				// such directory modes are not generated (files keep them).
				if fi, err := os.Stat(B.abs(st.p1)); err == nil && fi.IsDir() {
					st.mode |= 0o100
				}
			}
			history = append(history, st.String())
			drop()
			wantV, wantErr := c05Ref(B, st)
			gotV, gotErr := c05Sut(sess.C, A, st)
			raise()
			u.Count("steps", 1)
			if unpriv {
				u.Count("unprivileged_steps", 1)
				if c05Category(wantErr) == "permission" {
					u.Count("unprivileged_permission_outcomes", 1)
				}
			}
			u.SetAdd("operations", st.op)
			if wantErr == errC05NotCompared {
				u.Count("ill_formed_patterns_not_compared", 1)
				continue
			}
			wc, gc := c05Category(wantErr), c05Category(gotErr)
			u.SetAdd("outcome_categories", wc)
			u.Eval(fmt.Sprintf("%s/%s/%s", st.op, wc, style))
			w := map[string]any{"path_style": style, "history": history[max(0, len(history)-15):], "unit": u.Index, "sequence": si, "step": i}
			if wc != gc {
				u.Violation(fmt.Sprintf("category:%s:os=%s:sftp=%s", st.op, wc, gc), fmt.Sprintf("step %d %s (%s paths): package os reports %q (%s), the client reports %q (%v)", i, st, style, wc, c05ErrText(wantErr), gc, gotErr), w)
			} else if wantErr == nil && wantV != gotV {
				u.Violation("value:"+st.op, fmt.Sprintf("step %d %s (%s paths): package os returns %q, the client returns %q", i, st, style, vfTrim(wantV, 300), vfTrim(gotV, 300)), w)
			}
			if st.op == "Chtimes" && wantErr == nil && gotErr == nil {
				fa, ea := os.Stat(A.abs(st.p1))
				fb, eb := os.Stat(B.abs(st.p1))
				if ea == nil && eb == nil && fa.ModTime().Unix() != fb.ModTime().Unix() {
					u.Violation("value:Chtimes-mtime", fmt.Sprintf("step %d %s: mtime on the served tree %d, with os %d", i, st, fa.ModTime().Unix(), fb.ModTime().Unix()), w)
				}
				// the access time just set (read back at once, before anything can have read the file; a stat does not touch it)
				if ea == nil && eb == nil {
					ta, oka := fa.Sys().(*syscall.Stat_t)
					tb, okb := fb.Sys().(*syscall.Stat_t)
					if oka && okb && ta.Atim.Sec != tb.Atim.Sec {
						u.Violation("value:Chtimes-atime", fmt.Sprintf("step %d %s: atime on the served tree %d, with os %d", i, st, ta.Atim.Sec, tb.Atim.Sec), w)
					}
				}
			}
			sa, sb := c05Snap(A), c05Snap(B)
			if sa != sb {
				u.Violation("tree:"+st.op, fmt.Sprintf("step %d %s (%s paths): the served tree and the os-driven twin diverge:\n%s", i, st, style, vfTrim(vfLineDiff(sb, sa), 800)), w)
				// resynchronise: continuing on diverged trees would only repeat the report
				break
			}
		}
		if si == 0 {
			u.Sample(map[string]any{"path_style": style, "sequence": history[:min(len(history), 12)]})
		}
		if msg := sess.Close(); msg != "" {
			u.Violation("session-close", msg, nil)
		}
		vfChmodAll(A.top)
		vfChmodAll(B.top)
		os.RemoveAll(A.top)
		os.RemoveAll(B.top)
	}
}
